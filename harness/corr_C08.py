"""
C08 — correspondence + search for `AegeanTools.regions.Region` (and `MIMAS.combine_regions`).

A *history* is a depth `m` and a list of items (JSON-able lists):

    ['A', d, [p…]]        add_pixels(pix, d)                         raw primitive
    ['N', d, [p…]]        add_pixels(pix, d); _renorm()              what add_circles/add_poly/mask2mim do
    ['C', ra, dec, rad, d]  add_circles(ra, dec, rad, depth=d)        model gets healpy's pixel list as ['N', d, …]
    ['Y', [[ra,dec]…], d]   add_poly(positions, depth=d)              idem
    ['R']                 _renorm()
    ['U', b, opnd]        union(other, renorm=b)        opnd = {'m': depth, 'build': [items…]} — its own history
    ['W'|'I'|'X', opnd]   without / intersect / symmetric_difference
    ['D'] ['G'] ['Q',[q…]] ['P']   get_demoted / get_area / sky_within(pixel centres) / save+load

The real code runs every item; after every item the harness reads (without calling any method) the
pixel dictionary, the aliasing of `demoted`, and compares
  * with the Lean *model* (`Model.C08.step`, through the driver): state by value, observation, operand
    after the call                                                           -> 'corr' failures
  * with the Lean *Spec* (`Spec.C08.step`, set algebra on deepest pixels): covered set, every id an
    in-range integer, nothing covered twice, area, demoted set, membership    -> 'spec' failures
Spec failures are shrunk (delta debugging on the item list, judged against a small Python copy of the
Spec so that it also works when the Lean driver is unavailable).
"""
import copy
import glob
import itertools
import json
import math
import os
import pickle

import numpy as np

import warnings

import common

# AegeanTools/MIMAS.py itself contains '[(\\s,)]' in a non-raw string; compiling it prints a SyntaxWarning on first
# import (it is the repository's source, not this harness) — keep the check's output clean
warnings.filterwarnings('ignore', category=SyntaxWarning)

LEVEL = 'proof'
LEANCHECKER = True
RULE = ("a case is one (maxdepth, operation list) run against the real Region, observed after every operation; "
        "non-trivial = the list contains at least one mutating operation and at least one observation "
        "(get_demoted/get_area/sky_within/pickle or a later operation reading the state) after it, and the region "
        "is non-empty at some point; distinct by the canonical text of the list")
ASSUMPTIONS = [
    "healpy is an oracle: query_disc/query_polygon return valid nested ids for the requested nside; ang2pix of a "
    "pixel centre (pix2ang) returns that pixel; nside2pixarea(2^d) = 4*pi/(12*4^d)",
    "pickle round-trips values and object identity inside one dump (so `demoted` stays an alias of pixeldict[maxdepth])",
    "levels passed to add_pixels/add_circles/add_poly are in 1..maxdepth (other levels are stored but ignored by the code)",
    "the glue Model.C08.stepL (set semantics, cache aliasing, order of statements) is tied to regions.py by this sampled "
    "correspondence (bounded-exhaustive at depth 2-3, random to length 12 at depth <= 10); its 13 arithmetic leaves and "
    "loop ranges are regenerated from source on every run (Gen.C08.*) and the driver executes stepGen",
]
TRUSTED = ["translator/targets/C08.py: 13 slicers (children, parent, quadHead, degrade, five loop ranges, finer, three depth guards)",
           "Lean driver parsing/printing (Aegean/Driver/C08.lean) and this harness's canonicaliser of Region state"]
PARTIAL = []

# ------------------------------------------------------------------------------------------------
# small Python copy of the Spec (used for shrinking and when the driver is down; cross-checked
# against the Lean Spec on every case of the main run)


def below(p, k):
    return range(p * 4 ** k, (p + 1) * 4 ** k)


def opnd_sky(o):
    """(depth, set of deepest pixels) of an operand history, by the Python Spec"""
    S = set()
    for it in o['build']:
        S, _ = py_spec_step(o['m'], S, resolve(o['m'], it))
    return o['m'], S


def py_spec_step(m, S, it):
    k = it[0]
    if k in ('A', 'N'):
        d, ps = it[1], it[2]
        S = set(S)
        for p in ps:
            S.update(below(p, m - d))
        return S, None
    if k in ('R', 'P'):
        return S, None
    if k == 'U':
        om, OS = opnd_sky(it[2])
        S = set(S)
        if om <= m:
            for q in OS:
                S.update(below(q, m - om))
        else:
            S.update(q // 4 ** (om - m) for q in OS)
        return S, None
    if k in ('W', 'I', 'X'):
        om, OS = opnd_sky(it[1])
        if om != m:
            return S, 'err assert'
        return {'W': S - OS, 'I': S & OS, 'X': S ^ OS}[k], None
    if k == 'D':
        return S, 'P:' + showset(S)
    if k == 'G':
        return S, 'A:%d' % len(S)
    if k == 'Q':
        return S, 'B:' + ''.join('1' if q in S else '0' for q in it[1])
    raise ValueError(it)


def showset(s):
    return ','.join(str(x) for x in sorted(s))


# ------------------------------------------------------------------------------------------------
# the implementation side

Q_CONTAINERS = ('list', 'column', 'tuple', 'scalars', 'degrees', 'strided', 'numpy-scalars')
_q_counter = [0]


def hp_():
    import healpy
    return healpy


def resolve(m, it):
    """turn circle / polygon items into the ['N', d, pixels] item the model sees (healpy = oracle)"""
    from AegeanTools.regions import Region
    hp = hp_()
    if it[0] == 'C':
        _, ra, dec, rad, d = it
        d = min(d, m)
        ras, decs, rads = (ra, dec, rad) if isinstance(ra, list) else ([ra], [dec], [rad])
        ps = set()
        for a, b, r in zip(ras, decs, rads):
            vec = Region.sky2vec(np.array([[a, b]]))[0]
            ps.update(int(x) for x in hp.query_disc(2 ** d, vec, r, inclusive=True, nest=True))
        return ['N', d, sorted(ps)]
    if it[0] == 'Y':
        _, pos, d = it
        d = min(d, m)
        sky = np.array(pos, dtype=float)
        ps = hp.query_polygon(2 ** d, Region.sky2vec(sky), inclusive=True, nest=True)
        return ['N', d, sorted(int(x) for x in ps)]
    return it


def build_operand(o):
    from AegeanTools.regions import Region
    r = Region(o['m'])
    for it in o['build']:
        r, _, _ = apply_item(r, it, None)
    return r


def apply_item(r, it, tmp):
    """run one item on the real region; returns (region, observation-string or 'err assert')"""
    from AegeanTools.regions import Region
    hp = hp_()
    k = it[0]
    m = r.maxdepth
    other = None
    try:
        if k == 'A':
            r.add_pixels(list(it[2]), it[1])
            return r, '-', None
        if k == 'N':
            r.add_pixels(list(it[2]), it[1])
            r._renorm()
            return r, '-', None
        if k == 'C':
            r.add_circles(it[1], it[2], it[3], depth=it[4])
            return r, '-', None
        if k == 'Y':
            r.add_poly(it[1], depth=it[2])
            return r, '-', None
        if k == 'R':
            r._renorm()
            return r, '-', None
        if k == 'U':
            other = build_operand(it[2])
            r.union(other, renorm=bool(it[1]))
            return r, '-', other
        if k in ('W', 'I', 'X'):
            other = build_operand(it[1])
            {'W': r.without, 'I': r.intersect, 'X': r.symmetric_difference}[k](other)
            return r, '-', other
        if k == 'D':
            got = r.get_demoted()
            return r, 'P:' + show_ids(got), None
        if k == 'G':
            a = r.get_area(degrees=False) / hp.nside2pixarea(2 ** m)
            n = int(round(a))
            return r, ('A:%d' % n) if abs(a - n) <= 1e-9 * max(1.0, a) else ('A:%r' % a), None
        if k == 'Q':
            qs = list(it[1])
            theta, phi = hp.pix2ang(2 ** m, np.array(qs), nest=True)
            ra0, dec0 = phi, np.pi / 2 - theta
            # positions that are in no pixel: every combination of a non-finite coordinate with a good one
            bad = [(np.nan, np.nan), (np.inf, dec0[0]), (-np.inf, dec0[0]), (ra0[0], np.inf), (ra0[0], -np.inf),
                   (np.nan, dec0[0]), (ra0[0], np.nan), (np.inf, np.nan)]
            ra = np.append(ra0, [b[0] for b in bad])
            dec = np.append(dec0, [b[1] for b in bad])
            ans = r.sky_within(ra, dec)
            n = len(qs)
            for j, b in enumerate(bad):
                if bool(ans[n + j]):
                    return r, 'B:position(ra=%r,dec=%r)-is-in-no-pixel-but-answered-inside' % (float(b[0]), float(b[1])), None
            text = 'B:' + ''.join('1' if x else '0' for x in ans[:n])
            # the same finite positions handed over in another container / unit: the answers may not depend on it
            _q_counter[0] += 1
            kind = Q_CONTAINERS[_q_counter[0] % len(Q_CONTAINERS)]
            if kind == 'list':
                alt = r.sky_within(list(map(float, ra0)), list(map(float, dec0)))
            elif kind == 'tuple':
                alt = r.sky_within(tuple(ra0), tuple(dec0))
            elif kind == 'column':
                alt = r.sky_within(ra0.reshape(-1, 1), dec0.reshape(-1, 1))
            elif kind == 'scalars':
                alt = [bool(r.sky_within(float(a), float(b))[0]) for a, b in zip(ra0, dec0)]
            elif kind == 'numpy-scalars':
                alt = [bool(r.sky_within(np.float64(a), np.float64(b))[0]) for a, b in zip(ra0, dec0)]
            elif kind == 'degrees':
                alt = r.sky_within(np.degrees(ra0), np.degrees(dec0), degin=True)
            else:   # 'strided': non-contiguous views
                alt = r.sky_within(np.repeat(ra0, 2)[::2], np.repeat(dec0, 2)[::2])
            alt_text = 'B:' + ''.join('1' if x else '0' for x in np.asarray(alt).ravel())
            if alt_text != text:
                return r, '%s-but-%s-when-the-positions-are-passed-as-%s' % (text, alt_text, kind), None
            return r, text, None
        if k == 'P':
            if tmp is None:
                return pickle.loads(pickle.dumps(r, protocol=2)), '-', None
            fn = os.path.join(tmp, 'r.mim')
            r.save(fn)
            return Region.load(fn), '-', None
    except AssertionError:
        return r, 'err assert', other
    raise ValueError(it)


def apply_item2(r, it, tmp):
    out = apply_item(r, it, tmp)
    return out if len(out) == 3 else (out[0], out[1], None)


def show_ids(s):
    """ids by numeric value; a non-integral id is printed as it is (and can never match the model)"""
    out = []
    for v in s:
        f = float(v)
        out.append((f, str(int(f)) if f.is_integer() else repr(f)))
    return ','.join(t for _, t in sorted(out))


def state_str(r):
    m = r.maxdepth
    alias = r.demoted is r.pixeldict.get(m)
    txt = 'm%d c%d ' % (m, 1 if alias else 0) + ' '.join('%d:%s' % (d, show_ids(r.pixeldict[d])) for d in range(1, m + 1))
    if not alias and len(r.demoted) != 0:
        txt += ' !demoted-is-a-stale-copy'
    extra = [d for d in r.pixeldict if not (1 <= d <= m) and len(r.pixeldict[d])]
    if extra:
        txt += ' !levels-outside-1..m:%s' % sorted(extra)
    return txt


def inspect(r):
    """(problem or None, covered set, multiplicity) read off the attributes without calling any method"""
    m = r.maxdepth
    cov, mult = set(), 0
    for d in range(1, m + 1):
        for v in r.pixeldict[d]:
            f = float(v)
            if not f.is_integer():
                return ('fractional-id', 'level %d holds %r' % (d, v)), None, None
            if not isinstance(v, (int, np.integer)) or isinstance(v, (bool, np.bool_)):
                # 3.0 names the right pixel but is not an integer: healpy.boundaries / pix2ang reject it
                return ('non-integer-id', 'level %d holds %r of type %s' % (d, v, type(v).__name__)), None, None
            p = int(f)
            if not (0 <= p < 12 * 4 ** d):
                return ('id-out-of-range', 'level %d holds %r (valid: 0..%d)' % (d, v, 12 * 4 ** d - 1)), None, None
            k = m - d
            mult += 4 ** k
            if 4 ** k > 300000:
                return ('harness-limit', 'region too large to enumerate'), None, None
            cov.update(below(p, k))
    return None, cov, mult


RAW = {'A'}


def is_raw(items):
    def raw_item(it):
        if it[0] in RAW:
            return True
        if it[0] == 'U':
            return (not it[1]) or is_raw(it[2]['build'])
        if it[0] in ('W', 'I', 'X'):
            return is_raw(it[1]['build'])
        if it[0] == 'UF':
            return not it[1]
        return False
    return any(raw_item(it) for it in items)


FILE_KINDS = ('S', 'L', 'UF', 'WF', 'IF', 'XF')


_hist_counter = [0]


def run_impl(m, items, tmp=None):
    """run a whole history on the real code; per item: dict(status, state, obs, operand, problem, cov, mult).
    `S f` / `L f` save the current region to / replace it by a load of file f; every object ever obtained stays
    alive (list `alive`), so aliasing between a loaded region and anything else in the process would show."""
    import shutil
    import tempfile
    from AegeanTools.regions import Region
    own = None
    if tmp is None and any(it[0] in FILE_KINDS for it in items):
        own = tmp = tempfile.mkdtemp(prefix='verif-C08-', dir='/dev/shm' if os.path.isdir('/dev/shm') else None)
    _hist_counter[0] += 1
    files, alive, made = {}, [], []
    r = Region(m)
    recs = []
    try:
        for it in items:
            k = it[0]
            try:
                other = None
                if k == 'S':
                    fn = os.path.join(tmp, 'h%d_f%d.mim' % (_hist_counter[0], it[1]))
                    r.save(fn)
                    files[it[1]] = fn
                    made.append(fn)
                    obs = '-'
                elif k in ('L', 'UF', 'WF', 'IF', 'XF'):
                    f = it[-1]
                    if f not in files:
                        obs = 'err nofile'        # Region.load would raise FileNotFoundError
                    elif k == 'L':
                        alive.append(r)
                        r = Region.load(files[f])
                        obs = '-'
                    else:
                        o = Region.load(files[f])
                        alive.append(o)
                        try:
                            if k == 'UF':
                                r.union(o, renorm=bool(it[1]))
                            else:
                                {'WF': r.without, 'IF': r.intersect, 'XF': r.symmetric_difference}[k](o)
                            obs = '-'
                        except AssertionError:
                            obs = 'err assert'
                else:
                    r, obs, other = apply_item2(r, it, tmp)
            except Exception as e:   # anything but the documented AssertionError
                recs.append(dict(crash='%s: %s' % (type(e).__name__, e)))
                break
            prob, cov, mult = inspect(r)
            err = obs.startswith('err ')
            recs.append(dict(status=obs if err else 'ok', state=state_str(r),
                             obs='-' if err else obs,
                             operand=state_str(other) if (other is not None and not err) else '-',
                             problem=prob, cov=cov, mult=mult))
    finally:
        if own:
            shutil.rmtree(own, ignore_errors=True)
        else:
            for fn in made:
                try:
                    os.unlink(fn)
                except OSError:
                    pass
    return recs


def judge_spec(m, items, recs, spec):
    """impl vs Spec.  spec = list of (set-string, obs-string) per item.  Returns (what, index, detail) or None"""
    alphabet = 'raw' if is_raw(items) else 'normalised'
    for i, (rec, sp) in enumerate(zip(recs, spec)):
        if 'crash' in rec:
            return ('raises', i, 'item %d %s raised %s' % (i, json.dumps(items[i])[:80], rec['crash']), alphabet)
        if rec['problem']:
            return (rec['problem'][0], i, rec['problem'][1], alphabet)
        sset, sobs = sp
        got = showset(rec['cov'])
        if sobs == 'err assert' and rec['status'] == 'ok' and items[i][0] in ('W', 'I', 'X'):
            # the code under test accepts an operand of another depth where the pinned code refuses.  If the
            # operand is coarser its sky is exactly representable here, and the property then demands plain set
            # algebra on deepest pixels; a finer operand has no exact meaning for these three operations.
            om, OS = opnd_sky(items[i][1])
            before = set(int(x) for x in sset.split(',')) if sset else set()
            if om > m:
                return ('error-contract', i, 'item %d: a finer operand (depth %d > %d) was accepted by %s'
                        % (i, om, m, items[i][0]), alphabet)
            fine = set()
            for q in OS:
                fine.update(below(q, m - om))
            alt = {'W': before - fine, 'I': before & fine, 'X': before ^ fine}[items[i][0]]
            if rec['cov'] != alt:
                miss, extra = sorted(alt - rec['cov'])[:8], sorted(rec['cov'] - alt)[:8]
                return ('covered-set', i, 'item %d: %s with an operand %d levels coarser was accepted, but the region now '
                        'covers %d deepest pixels where set algebra on deepest pixels gives %d (missing %s, extra %s)'
                        % (i, items[i][0], m - om, len(rec['cov']), len(alt), miss, extra), alphabet)
            return None      # accepted and exact: not a Spec matter (the model, which refuses, differs: 'corr')
        if got != sset:
            return ('covered-set', i, 'after item %d the region covers {%s} but set algebra gives {%s}'
                    % (i, got[:200], sset[:200]), alphabet)
        if rec['mult'] != len(rec['cov']):
            return ('double-cover', i, 'after item %d: %d deepest pixels are represented by stored pixels adding up to %d'
                    % (i, len(rec['cov']), rec['mult']), alphabet)
        want = sobs
        if want.startswith('err'):
            if rec['status'] != want:
                return ('error-contract', i, 'item %d: implementation %s, Spec %s' % (i, rec['status'], want), alphabet)
        elif rec['status'] != 'ok':
            return ('error-contract', i, 'item %d: implementation %s, Spec ok' % (i, rec['status']), alphabet)
        elif want != '-' and rec['obs'] != want:
            return ('observation', i, 'item %d %s returned %s, the Spec requires %s'
                    % (i, items[i][0], rec['obs'][:200], want[:200]), alphabet)
    if len(recs) < len(items) and not any('crash' in r for r in recs):
        return ('raises', len(recs), 'history stopped early', alphabet)
    return None


def py_spec(m, items):
    S, out, files = set(), [], {}
    for it in items:
        k = it[0]
        if k == 'S':
            files[it[1]] = frozenset(S)
            out.append((showset(S), '-'))
            continue
        if k in ('L', 'UF', 'WF', 'IF', 'XF'):
            f = it[-1]
            if f not in files:
                out.append((showset(S), 'err nofile'))
                continue
            F = files[f]                      # files hold regions of this history: same depth m
            S = {'L': set(F), 'UF': S | F, 'WF': S - F, 'IF': S & F, 'XF': S ^ F}[k]
            out.append((showset(S), '-'))
            continue
        S2, obs = py_spec_step(m, S, it)
        if obs == 'err assert':
            out.append((showset(S), 'err assert'))
        else:
            S = S2
            out.append((showset(S), obs if obs else '-'))
    return out


# ------------------------------------------------------------------------------------------------
# the Lean side

def enc_pixels(ps):
    return '%d %s' % (len(ps), ' '.join(str(int(p)) for p in ps)) if ps else '0'


def parse_state(txt):
    """'m3 c1 1: 2:0 3:7,8' -> (m, c, {d: [p…]})"""
    w = txt.split()
    m, c = int(w[0][1:]), int(w[1][1:])
    lv = {}
    for t in w[2:]:
        d, ps = t.split(':')
        lv[int(d)] = [int(x) for x in ps.split(',')] if ps else []
    return m, c, lv


def enc_region(state_txt):
    m, c, lv = parse_state(state_txt)
    lv = {d: ps for d, ps in lv.items() if ps}
    return '%d %d %d %s' % (m, c, len(lv), ' '.join('%d %s' % (d, enc_pixels(ps)) for d, ps in sorted(lv.items())))


def opnd_key(o):
    return json.dumps(o, sort_keys=True)


def enc_item(m, it, opstates):
    k = it[0]
    if k in ('A', 'N'):
        return '%s %d %s' % (k, it[1], enc_pixels(it[2]))
    if k in ('R', 'D', 'G', 'P'):
        return k
    if k == 'U':
        return 'U %d %s' % (1 if it[1] else 0, enc_region(opstates[opnd_key(it[2])]))
    if k in ('W', 'I', 'X'):
        return '%s %s' % (k, enc_region(opstates[opnd_key(it[1])]))
    if k == 'Q':
        return 'Q %s' % enc_pixels(it[1])
    if k in ('S', 'L', 'WF', 'IF', 'XF'):
        return '%s %d' % (k, it[1])
    if k == 'UF':
        return 'UF %d %d' % (1 if it[1] else 0, it[2])
    raise ValueError(it)


def operands_of(items):
    for it in items:
        if it[0] == 'U':
            yield it[2]
        elif it[0] in ('W', 'I', 'X'):
            yield it[1]


def model_operand_states(ctx, histories):
    """final model state of every operand history that occurs (operands contain no operands)"""
    ops = {}
    for m, items in histories:
        for o in operands_of(items):
            ops.setdefault(opnd_key(o), o)
    keys = list(ops)
    lines = []
    for k in keys:
        o = ops[k]
        body = ' | '.join(enc_item(o['m'], resolve(o['m'], it), {}) for it in o['build'])
        lines.append('seq %d %s' % (o['m'], body))
    outs = ctx.driver.batch(lines) if lines else []
    st = {}
    for k, out in zip(keys, outs):
        o = ops[k]
        if out == 'bad-op':
            raise common.LeanError('driver rejected operand history ' + k)
        st[k] = out.split(' | ')[-1].split(';')[1] if o['build'] else 'm%d c0' % o['m']
    return st


def model_lines(ctx, histories):
    """per history: list of (status, state, obs, operand, specset, specobs) from the Lean model and Spec"""
    opst = model_operand_states(ctx, histories)
    lines = ['seq %d %s' % (m, ' | '.join(enc_item(m, resolve(m, it), opst) for it in items)) for m, items in histories]
    outs = ctx.driver.batch(lines)
    res = []
    for (m, items), out in zip(histories, outs):
        if out == 'bad-op':
            raise common.LeanError('driver rejected history m=%d %s' % (m, json.dumps(items)[:300]))
        res.append([tuple(x.split(';')) for x in out.split(' | ')] if items else [])
    return res


# ------------------------------------------------------------------------------------------------
# judging one history

class Found:
    """spec failures already reported, one per kind"""
    def __init__(self):
        self.kinds = {}
        self.env = None          # e.g. 'logging-debug': recorded in the case and the signature of what is found
        self.no_shrink = False   # large regions: a re-run costs seconds, keep the case as it is


def sig_of(what, alphabet, items, idx):
    return dict(site='regions.Region', what=what, alphabet=alphabet)


def shrink(m, items, what, alphabet):
    """delta-debug the item list against the Python Spec, keeping the same kind of failure"""
    def fails(its):
        try:
            recs = run_impl(m, its)
            j = judge_spec(m, its, recs, py_spec(m, [resolve(m, it) for it in its]))
        except Exception:
            return False
        return j is not None and j[0] == what and j[3] == alphabet
    cur = list(items)
    changed = True
    while changed and len(cur) > 1:
        changed = False
        for i in range(len(cur)):
            cand = cur[:i] + cur[i + 1:]
            if cand and fails(cand):
                cur, changed = cand, True
                break
    # shrink pixel lists of add items
    for i, it in enumerate(cur):
        if it[0] in ('A', 'N') and len(it[2]) > 1:
            ps = list(it[2])
            j = 0
            while j < len(ps) and len(ps) > 1:
                cand = cur[:i] + [[it[0], it[1], ps[:j] + ps[j + 1:]]] + cur[i + 1:]
                if fails(cand):
                    ps = ps[:j] + ps[j + 1:]
                    cur = cand
                else:
                    j += 1
    return cur


def report_spec(ctx, found, m, items, j, do_shrink=True):
    what, idx, detail, alphabet = j
    key = (what, alphabet, found.env)
    found.kinds[key] = found.kinds.get(key, 0) + 1
    if found.kinds[key] > 1:
        return
    its = items
    if do_shrink and not found.no_shrink and not found.env:
        try:
            its = shrink(m, items, what, alphabet)
            recs = run_impl(m, its)
            j2 = judge_spec(m, its, recs, py_spec(m, [resolve(m, it) for it in its]))
            if j2 is not None and j2[0] == what:
                detail = j2[2]
            else:
                its = items
        except Exception:
            its = items
    case, sig = dict(m=m, items=its), sig_of(what, alphabet, its, idx)
    if found.env:
        case['env'] = found.env
        sig['env'] = found.env
        detail = '[%s] %s' % (found.env, detail)
    if found.no_shrink:
        case['large'] = True
    ctx.fail('spec', case, detail, sig)


def nontrivial_key(m, items):
    mut = {'A', 'N', 'C', 'Y', 'U', 'W', 'I', 'X', 'L', 'UF', 'WF', 'IF', 'XF'}
    first = next((i for i, it in enumerate(items) if it[0] in mut), None)
    if first is None or first == len(items) - 1:
        return None
    return 'm%d %s' % (m, json.dumps(items, sort_keys=True))


def judge_history(ctx, found, m, items, recs, mrecs, count=True):
    """compare one history: impl vs Lean Spec ('spec'), impl vs Lean model ('corr'), Lean Spec vs Python Spec"""
    spec = [(x[4], x[5]) for x in mrecs] if mrecs is not None else py_spec(m, [resolve(m, it) for it in items])
    bad = False
    j = judge_spec(m, items, recs, spec)
    if j is not None:
        report_spec(ctx, found, m, items, j)
        bad = True
    if mrecs is not None:
        ps = py_spec(m, [resolve(m, it) for it in items])
        for i, (a, b) in enumerate(zip(spec, ps)):
            if a != b:
                ctx.fail('corr', dict(m=m, items=items), 'Lean Spec and the harness copy of the Spec differ at item %d: %s vs %s'
                         % (i, a, b), dict(site='Spec.C08', what='spec-oracle'))
                bad = True
                break
        for i, (rec, x) in enumerate(zip(recs, mrecs)):
            if 'crash' in rec:
                break
            mine = (rec['status'], rec['state'], rec['obs'], rec['operand'])
            if mine != tuple(x[:4]):
                if not bad or ('corr', 'model') not in found.kinds:
                    found.kinds[('corr', 'model')] = 1
                    ctx.fail('corr', dict(m=m, items=items),
                             'item %d %s: implementation %s  /  model %s' % (i, json.dumps(items[i])[:120], mine, tuple(x[:4])),
                             dict(site='regions.Region', what='model-differs'))
                bad = True
                break
    if count:
        ctx.case(dict(m=m, items=items if len(json.dumps(items)) < 600 else '(%d items)' % len(items)),
                 nontrivial_key=None if bad else nontrivial_key(m, items), sample_every=9973)
        for it in items:
            ctx.count('op:' + it[0])
    return not bad


def run_histories(ctx, found, histories, tmp=None):
    impl = [run_impl(m, items, tmp) for m, items in histories]
    mr = model_lines(ctx, histories) if ctx.driver_ok else [None] * len(histories)
    ok = True
    for (m, items), recs, x in zip(histories, impl, mr):
        ok &= judge_history(ctx, found, m, items, recs, x)
    return ok


# ------------------------------------------------------------------------------------------------
# generators

def alphabet(m):
    """12 items for the bounded-exhaustive run at depth m (2 or 3)"""
    top = 12 * 4 ** m
    eq = {'m': m, 'build': [['N', m, [1, 4, 5, 6, 7]]]}
    eq_cached = {'m': m, 'build': [['N', m, [2, 5, 6, 16 % top, 17 % top, 18 % top, 19 % top]], ['D']]}
    coarse = {'m': m - 1, 'build': [['N', m - 1, [0, 3]]]} if m > 1 else eq
    fine = {'m': m + 1, 'build': [['N', m + 1, [5, 6, 35, 64, 65, 66, 67, 68]]]}
    return [
        ['N', m, [0, 1, 2, 3, 9]],
        ['N', m - 1 if m > 1 else m, [1]],
        ['A', m, [4, 5]],
        ['U', 1, eq],
        ['U', 1, coarse],
        ['U', 1, fine],
        ['W', eq_cached],
        ['I', eq],
        ['X', eq_cached],
        ['D'],
        ['G'],
        ['Q', [1, 5, 9, 17 % top]],
    ]


def exhaustive(ctx, found, m, length, tmp):
    """all sequences of `length` items over alphabet(m) (+ 'P' appended to a sample), DFS with shared prefixes on
    the implementation side, one driver line per leaf"""
    from AegeanTools.regions import Region
    alpha = alphabet(m)
    nA = len(alpha)
    batch, total = [], 0

    def flush():
        nonlocal batch
        if batch:
            hist = [(m, items) for items, _ in batch]
            mr = model_lines(ctx, hist) if ctx.driver_ok else [None] * len(hist)
            for (items, recs), x in zip(batch, mr):
                judge_history(ctx, found, m, items, recs, x)
            batch = []

    def rec_of(r, obs, other):
        prob, cov, mult = inspect(r)
        return dict(status='err assert' if obs == 'err assert' else 'ok', state=state_str(r),
                    obs='-' if obs == 'err assert' else obs,
                    operand=state_str(other) if (other is not None and obs != 'err assert') else '-',
                    problem=prob, cov=cov, mult=mult)

    def dfs(r, path, recs):
        nonlocal total
        if len(path) == length:
            items = [alpha[i] for i in path]
            rr = recs
            if total % 7 == 3:      # pickle round trip at the end of a sample of the leaves
                r2, obs, _ = apply_item2(copy.deepcopy(r), ['P'], tmp)
                items = items + [['P']]
                rr = recs + [rec_of(r2, obs, None)]
            batch.append((items, rr))
            total += 1
            if len(batch) >= 4000:
                flush()
            return
        for i in range(nA):
            r2 = copy.deepcopy(r)
            try:
                r2, obs, other = apply_item2(r2, alpha[i], tmp)
                rec = rec_of(r2, obs, other)
            except Exception as e:
                rec = dict(crash='%s: %s' % (type(e).__name__, e))
                # every extension of a crashing prefix crashes the same way: report this one history
                batch.append(([alpha[k] for k in path + [i]], recs + [rec]))
                total += 1
                continue
            dfs(r2, path + [i], recs + [rec])

    dfs(Region(m), [], [])
    flush()
    ctx.count('exhaustive m=%d len=%d' % (m, length), total)


def file_alphabet(m, wide):
    top = 12 * 4 ** m
    al = [
        ['N', m, [1, 2, 3, 9]],
        ['W', {'m': m, 'build': [['N', m, [2, 9]]]}],
        ['S', 0],
        ['L', 0],
        ['D'],
        ['WF', 0],
    ]
    if wide:
        al += [['N', m, [0, 17 % top]], ['S', 1], ['XF', 1]]
    return al


def file_stream(ctx, found, m, length, tmp, wide):
    """all sequences of `length` items over file_alphabet(m).  No prefix sharing by deep copies here: a copy would
    break exactly the aliasing (between a loaded region and anything else alive) this stream is after."""
    al = file_alphabet(m, wide)
    n = len(al)
    total = n ** length
    if total > 20000:          # wide: all of length-1, a sample of `length`
        seqs = list(itertools.product(range(n), repeat=length - 1))
        seqs += [tuple(ctx.rng.randrange(n) for _ in range(length)) for _ in range(12000)]
    else:
        seqs = list(itertools.product(range(n), repeat=length))
    hs = [(m, [al[i] for i in p]) for p in seqs]
    for k in range(0, len(hs), 3000):
        run_histories(ctx, found, hs[k:k + 3000], tmp)
    ctx.count('file stream m=%d' % m, len(hs))


def gap_stream(ctx, found, tmp):
    """without / intersect / symmetric_difference with operands 1..3 levels coarser and 1 level finer, on a
    region that overlaps the operand partly (the pinned code refuses all of them and stays unchanged)"""
    rng = ctx.rng
    hs = []
    for m in (3, 4, 5, 6):
        for gap in (1, 2, 3, -1):
            om = m - gap
            if om < 1:
                continue
            for k in ('W', 'I', 'X'):
                p = rng.randrange(12 * 4 ** min(om, m))
                if gap > 0:
                    mine = [p * 4 ** gap + j for j in rng.sample(range(4 ** gap), min(4 ** gap, 5))] + [rng.randrange(12 * 4 ** m)]
                    o = {'m': om, 'build': [['N', om, sorted({p, (p + 7) % (12 * 4 ** om)})]]}
                else:
                    mine = [p, (p + 5) % (12 * 4 ** m)]
                    o = {'m': om, 'build': [['N', om, [4 * p + 1, 4 * p + 2]]]}
                top = 12 * 4 ** m
                hs.append((m, [['N', m, sorted(set(mine))], [k, o], ['G'], ['D'], ['Q', sorted(set(x % top for x in mine))[:4]]]))
    run_histories(ctx, found, hs, tmp)
    ctx.count('gap stream', len(hs))


def count_preserving(rng, m):
    """a query, then edits whose net effect keeps the NUMBER of deepest pixels but changes the members, no
    sky_within in between, then the same query again (a membership cache keyed on identity/size would be stale)"""
    top = 12 * 4 ** m
    base = rng.randrange(top // 4) * 4
    d = m if (m == 1 or rng.random() < 0.7) else m - 1
    k = 4 ** (m - d)
    A = sorted({(base // k + j) % (12 * 4 ** d) for j in rng.sample(range(8), rng.randint(2, 4))})   # ids at level d
    Adeep = sorted(q for p in A for q in below(p, m - d))
    n = rng.randint(1, min(3, len(Adeep)))
    out_ = rng.sample(Adeep, n)                                   # leave
    free = [q for q in range(max(0, Adeep[0] - 40), min(top, Adeep[-1] + 40)) if q not in Adeep]
    in_ = rng.sample(free, n)                                     # join: as many as leave
    probes = sorted(set(out_ + in_ + rng.sample(Adeep, 1)))[:6]
    items = [['N', d, A], ['Q', probes]]
    style = rng.randrange(4)
    if style == 0:
        items.append(['X', {'m': m, 'build': [['N', m, sorted(out_ + in_)]]}])          # |B| = 2|A∩B|
    elif style == 1:
        items += [['W', {'m': m, 'build': [['N', m, sorted(out_)]]}], ['N', m, sorted(in_)]]
    elif style == 2:
        items += [['N', m, sorted(in_)], ['G'], ['W', {'m': m, 'build': [['N', m, sorted(out_)]]}], ['D']]
    else:
        items += [['P'], ['W', {'m': m, 'build': [['N', m, sorted(out_)]]}], ['U', 1, {'m': m, 'build': [['N', m, sorted(in_)]]}]]
    items += [['Q', probes], ['G'], ['D']]
    return m, items


def membership_stream(ctx, found, tmp):
    """all sequences of length 5 over five items at depth 2 that contain query / count-preserving edit / query"""
    m = 2
    al = [['N', m, [1, 2]], ['X', {'m': m, 'build': [['N', m, [2, 3]]]}], ['W', {'m': m, 'build': [['N', m, [1]]]}],
          ['N', m, [5]], ['Q', [1, 2, 3, 5]]]
    hs = [(m, [al[i] for i in p]) for p in itertools.product(range(len(al)), repeat=5)]
    run_histories(ctx, found, hs, tmp)
    ctx.count('membership stream', len(hs))
    hs = [count_preserving(ctx.rng, ctx.rng.choice([1, 2, 3, 4, 5, 6, 8, 10])) for _ in range(60 if ctx.quick else 600)]
    run_histories(ctx, found, hs, tmp)
    ctx.count('count-preserving edits', len(hs))


def rand_pixels(rng, d, n, top_only=False):
    top = 12 * 4 ** d
    base = rng.randrange(top)
    out = set()
    for _ in range(n):
        if rng.random() < 0.6:     # clustered: siblings, so that quads complete and merge
            out.add((base // 4 * 4 + rng.randrange(8)) % top)
        else:
            out.add(rng.randrange(top))
    return sorted(out)


def rand_operand(rng, m, rel):
    om = max(1, min(12, m + rel))
    lo = max(1, om - 1)
    build = []
    for _ in range(rng.randint(1, 2)):
        d = rng.randint(lo, om)
        build.append(['N', d, rand_pixels(rng, d, rng.randint(1, 3 if rel < 0 else 6))])
    if rng.random() < 0.3:
        build.append(['D'])
    if rng.random() < 0.15:
        build.append(['A', om, rand_pixels(rng, om, 3)])
    return {'m': om, 'build': build}


def rand_history(rng, raw_ok):
    m = rng.choice([1, 2, 2, 3, 3, 4, 5, 6, 7, 8, 9, 10])
    n = rng.randint(3, 12)
    lo = max(1, m - 2)
    items = []
    known = []
    for _ in range(n):
        x = rng.random()
        if x < 0.18:
            d = rng.randint(lo, m) if rng.random() < 0.15 else rng.randint(max(1, m - 1), m)
            ps = rand_pixels(rng, d, rng.randint(1, 2) if d < m - 1 else rng.randint(1, 9))
            items.append(['N', d, ps])
            known += [p * 4 ** (m - d) for p in ps]
        elif x < 0.26:
            # a disc of about 1-3 pixel radii at depth d (radians)
            d = rng.randint(max(1, m - 1), m)
            res = math.sqrt(4 * math.pi / (12 * 4 ** d))
            items.append(['C', rng.uniform(0, 2 * math.pi), math.asin(rng.uniform(-1, 1)), res * rng.uniform(0.3, 1.2), d])
        elif x < 0.31 and m >= 3:
            d = rng.randint(max(3, m - 1), m)
            res = math.sqrt(4 * math.pi / (12 * 4 ** d))
            ra, dec = rng.uniform(0.5, 5.5), math.asin(rng.uniform(-0.8, 0.8))
            s = res * rng.uniform(0.8, 1.6)
            it = ['Y', [[ra - s, dec - s / 2], [ra + s, dec - s / 2], [ra + s / 3, dec + s]], d]
            try:
                resolve(m, it)        # healpy refuses some polygons; those are not part of the input space
            except Exception:
                continue
            items.append(it)
        elif x < 0.36 and raw_ok:
            d = rng.randint(lo, m)
            items.append(['A', d, rand_pixels(rng, d, rng.randint(1, 5))])
        elif x < 0.50:
            rel = rng.choice([0, 0, -1, 1, 1, 2, -1])
            items.append(['U', 1 if (not raw_ok or rng.random() < 0.85) else 0, rand_operand(rng, m, rel)])
        elif x < 0.58:
            items.append(['W', rand_operand(rng, m, rng.choice([0, 0, 0, 0, 1, -2, -3]))])
        elif x < 0.64:
            items.append(['I', rand_operand(rng, m, rng.choice([0, 0, 0, -2, -1]))])
        elif x < 0.70:
            items.append(['X', rand_operand(rng, m, rng.choice([0, 0, 0, -2, 1]))])
        elif x < 0.78:
            items.append(['D'])
        elif x < 0.85:
            items.append(['G'])
        elif x < 0.94:
            top = 12 * 4 ** m
            qs = [rng.choice(known) if known and rng.random() < 0.6 else rng.randrange(top) for _ in range(rng.randint(1, 5))]
            items.append(['Q', [q % top for q in qs]])
        elif x < 0.97:
            items.append(['P'])
        else:
            items.append(['R'])
        y = rng.random()
        if y < 0.10:
            items.append(['S', rng.randrange(2)])
        elif y < 0.20:
            items.append(['L', rng.randrange(2)])
        elif y < 0.26:
            items.append(rng.choice([['WF', 0], ['IF', 1], ['XF', 0], ['UF', 1, 1], ['UF', 1, 0]]))
    return m, items


# ------------------------------------------------------------------------------------------------
# MIMAS.combine_regions

STAGES = ('add', 'rem', 'inc_c', 'exc_c', 'inc_p', 'exc_p')


def container_items(desc):
    """the documented order of construction of MIMAS.combine_regions, as a history (what `Model.C08.combineOps`
    and `refines_from_empty` are about): add regions, subtract regions, add circles, subtract circles, add
    polygons, subtract polygons"""
    m = desc['m']
    items = []
    for o in desc.get('add', []):
        items.append(['U', 1, o])
    for o in desc.get('rem', []):
        items.append(['W', o])
    for c in desc.get('inc_c', []):
        a = np.radians(np.array(c, dtype=float))
        items.append(['C', float(a[0]), float(a[1]), float(a[2]), m])
    for c in desc.get('exc_c', []):
        a = np.radians(np.array(c, dtype=float))
        items.append(['W', {'m': m, 'build': [['C', float(a[0]), float(a[1]), float(a[2]), m]]}])
    for p in desc.get('inc_p', []):
        a = np.radians(np.array(p, dtype=float)).reshape(-1, 2)
        items.append(['Y', [[float(x), float(y)] for x, y in a], m])
    for p in desc.get('exc_p', []):
        a = np.radians(np.array(p, dtype=float)).reshape(-1, 2)
        items.append(['W', {'m': m, 'build': [['Y', [[float(x), float(y)] for x, y in a], m]]}])
    return items


_cont_counter = [0]


def run_container(desc, tmp):
    """call the real MIMAS.combine_regions on the container described by `desc`; returns the Region"""
    from AegeanTools import MIMAS
    m = desc['m']
    cont = MIMAS.Dummy(maxdepth=m)
    _cont_counter[0] += 1
    made = []
    try:
        for key, lst in (('add', cont.add_region), ('rem', cont.rem_region)):
            for k, o in enumerate(desc.get(key, [])):
                fn = os.path.join(tmp, 'c%d_%s%d.mim' % (_cont_counter[0], key, k))
                build_operand(o).save(fn)
                made.append(fn)
                lst.append([fn])
        cont.include_circles = [list(c) for c in desc.get('inc_c', [])]
        cont.exclude_circles = [list(c) for c in desc.get('exc_c', [])]
        cont.include_polygons = [list(p) for p in desc.get('inc_p', [])]
        cont.exclude_polygons = [list(p) for p in desc.get('exc_p', [])]
        return MIMAS.combine_regions(cont)
    finally:
        for fn in made:
            try:
                os.unlink(fn)
            except OSError:
                pass


def container_verdict(desc, tmp):
    """None if combine_regions(desc) is the set expression of the documented order, else a description"""
    m = desc['m']
    items = container_items(desc)
    if not items:
        return None
    want = py_spec(m, [resolve(m, it) for it in items])[-1][0]
    try:
        region = run_container(desc, tmp)
    except AssertionError:
        return None if any(o['m'] != m for o in desc.get('rem', [])) else 'combine_regions raised AssertionError'
    except Exception as e:
        return 'combine_regions raised %s: %s' % (type(e).__name__, e)
    prob, cov, mult = inspect(region)
    if prob:
        return '%s: %s' % prob
    got = showset(cov)
    if got != want:
        S, W = set(cov), set(int(x) for x in want.split(',')) if want else set()
        return ('combine_regions covers %d deepest pixels, the documented order of construction gives %d '
                '(missing %s, extra %s)' % (len(S), len(W), sorted(W - S)[:8], sorted(S - W)[:8]))
    if mult != len(cov):
        return 'combine_regions result represents %d deepest pixels with stored pixels adding up to %d' % (len(cov), mult)
    return None


def shrink_container(desc, tmp):
    cur = json.loads(json.dumps(desc))
    changed = True
    while changed:
        changed = False
        for key in STAGES:
            for i in range(len(cur.get(key, []))):
                cand = json.loads(json.dumps(cur))
                del cand[key][i]
                try:
                    bad = container_verdict(cand, tmp)
                except Exception:
                    bad = None
                if bad:
                    cur, changed = cand, True
                    break
            if changed:
                break
    return cur


def check_containers(ctx, found, descs, tmp):
    """real combine_regions vs the Spec's set expression, and the equivalent histories through model + Spec"""
    hist = []
    for desc in descs:
        items = container_items(desc)
        if not items:
            continue
        hist.append((desc['m'], items))
        bad = container_verdict(desc, tmp)
        ctx.count('combine_regions')
        ctx.count('combine stages ' + '+'.join(k for k in STAGES if desc.get(k)))
        if bad and ('combine', 'order') not in found.kinds:
            found.kinds[('combine', 'order')] = 1
            small = shrink_container(desc, tmp)
            ctx.fail('spec', dict(via='MIMAS.combine_regions', container=small, m=small['m'], items=container_items(small)),
                     container_verdict(small, tmp) or bad,
                     dict(site='MIMAS.combine_regions', what='order-of-construction',
                          stages='+'.join(k for k in STAGES if small.get(k))))
    for k in range(0, len(hist), 100):
        run_histories(ctx, found, hist[k:k + 100], tmp)


def disc_operand(m, om, ra, dec, rad):
    """an operand region file: a disc (degrees) at depth om"""
    a = np.radians(np.array([ra, dec, rad], dtype=float))
    return {'m': om, 'build': [['C', float(a[0]), float(a[1]), float(a[2]), om]]}


def systematic_containers(rng, m):
    """one container per non-empty subset of the six stages, every shape overlapping the one of the stage before
    (a removed region inside the added one, an included circle over the removed region, an excluded circle inside
    the included one, an included polygon over the excluded circle, an excluded polygon cutting the included
    polygon) so that any re-ordering or re-use between stages changes the result"""
    res = math.degrees(math.sqrt(4 * math.pi / (12 * 4 ** m)))
    out = []
    for mask in range(1, 64):
        ra0, dec0 = rng.uniform(20, 340), rng.uniform(-50, 50)
        cd = math.cos(math.radians(dec0))

        def at(dx, dy):
            return ra0 + dx * res / cd, dec0 + dy * res

        def tri(cx, cy, sz):
            x, y = at(cx, cy)
            return [x - sz * res / cd, y - sz * res / 2, x + sz * res / cd, y - sz * res / 2, x + sz * res / (3 * cd), y + sz * res]
        d = dict(m=m)
        if mask & 1:
            d['add'] = [disc_operand(m, max(1, m + rng.choice([0, 0, 1, -1])), *at(0, 0), 4 * res)]
            if rng.random() < 0.3:
                d['add'].append(disc_operand(m, m, *at(5, 1), 1.5 * res))
        if mask & 2:
            d['rem'] = [disc_operand(m, m, *at(1.5, 0), 1.8 * res)]
        if mask & 4:
            d['inc_c'] = [list(at(1.0, 0.5)) + [2.5 * res]]
            if rng.random() < 0.3:
                d['inc_c'].append(list(at(-4, -1)) + [1.0 * res])
        if mask & 8:
            d['exc_c'] = [list(at(0.5, 0.0)) + [1.6 * res]]
            if rng.random() < 0.4:
                d['exc_c'].append(list(at(-2.5, 1.0)) + [1.0 * res])
        if mask & 16:
            d['inc_p'] = [tri(0.5, 0.0, 2.0)]
        if mask & 32:
            d['exc_p'] = [tri(-0.6, 0.2, 1.3) if rng.random() < 0.7 else tri(9, 3, 1.3)]
            if rng.random() < 0.3:
                d['exc_p'].append(tri(2.5, -1.0, 1.0))
        out.append(d)
    return out


def random_container(rng):
    m = rng.choice([3, 4, 5, 6, 8])
    res = math.degrees(math.sqrt(4 * math.pi / (12 * 4 ** m)))
    d = dict(m=m)
    first = None
    for k in range(rng.randint(0, 2)):
        o = rand_operand(rng, m, 0 if k == 0 else rng.choice([0, -1, 1]))
        o['build'] = [it for it in o['build'] if it[0] != 'A']
        first = first or o
        d.setdefault('add', []).append(o)
    for k in range(rng.randint(0, 1) if first is None else 1):
        o = rand_operand(rng, m, 0)
        o['build'] = [it for it in o['build'] if it[0] != 'A']
        if first is not None:
            d0, ps0 = first['build'][0][1], first['build'][0][2]
            o['build'] = [['N', d0, ps0[:max(1, len(ps0) // 2)]]] + o['build'][:1]
        d.setdefault('rem', []).append(o)

    def circle():
        return [rng.uniform(0, 360), math.degrees(math.asin(rng.uniform(-1, 1))), res * rng.uniform(0.5, 3.0)]

    def poly():
        ra, dec = rng.uniform(10, 350), math.degrees(math.asin(rng.uniform(-0.9, 0.9)))
        s_ = res * rng.uniform(1.0, 3.0)
        return [ra - s_, dec - s_ / 2, ra + s_, dec - s_ / 2, ra + s_ / 3, dec + s_]
    for key, gen, hi in (('inc_c', circle, 2), ('exc_c', circle, 1), ('inc_p', poly, 1), ('exc_p', poly, 1)):
        for _ in range(rng.randint(0, hi)):
            d.setdefault(key, []).append(gen())
    return d


# ------------------------------------------------------------------------------------------------
# slices: large regions, DEBUG logging, python -O

import contextlib


@contextlib.contextmanager
def debug_logging():
    """root logger and the 'Aegean' logger at DEBUG (what `--debug` / logging.basicConfig(level=DEBUG) do), output
    discarded; restored afterwards"""
    import logging
    root, aeg = logging.getLogger(), logging.getLogger('Aegean')
    saved = (root.level, aeg.level, list(root.handlers), root.manager.disable)
    null = logging.NullHandler()
    try:
        root.handlers = [null]
        root.setLevel(logging.DEBUG)
        aeg.setLevel(logging.DEBUG)
        logging.disable(logging.NOTSET)
        yield
    finally:
        root.handlers = saved[2]
        root.setLevel(saved[0])
        aeg.setLevel(saved[1])
        logging.disable(saved[3])


def large_cases(rng, n):
    """count-preserving query histories on regions of a little more than 2^16 deepest pixels (a disc of ~8.5 deg
    at depth 10): query; remove k pixels and add k others (no sky_within in between); query again"""
    hp = hp_()
    from AegeanTools.regions import Region
    m = 10
    out = []
    for i in range(n):
        ra, dec = rng.uniform(0.3, 6.0), math.asin(rng.uniform(-0.8, 0.8))
        rad = math.radians(rng.uniform(8.45, 8.7))
        vec = Region.sky2vec(np.array([[ra, dec]]))[0]
        inside = [int(x) for x in hp.query_disc(2 ** m, vec, rad, inclusive=True, nest=True)]
        wider = set(int(x) for x in hp.query_disc(2 ** m, vec, rad * 1.05, inclusive=True, nest=True)) - set(inside)
        k = rng.randint(2, 5)
        out_ = sorted(rng.sample(inside, k))
        in_ = sorted(rng.sample(sorted(wider), k))
        probes = sorted(out_ + in_ + rng.sample(inside, 2))
        items = [['C', ra, dec, rad, m], ['Q', probes]]
        style = i % 3
        if style == 0:
            items += [['W', {'m': m, 'build': [['N', m, out_]]}], ['N', m, in_]]
        elif style == 1:
            items += [['X', {'m': m, 'build': [['N', m, sorted(out_ + in_)]]}]]
        else:
            items += [['P'], ['N', m, in_], ['G'], ['W', {'m': m, 'build': [['N', m, out_]]}]]
        items += [['Q', probes], ['G']]
        out.append((m, items))
    return out


def large_slice(ctx, found, tmp):
    """judged against the Python copy of the Spec only: the Lean model's list-based sets are quadratic and take
    minutes at 2^16 pixels (evidence note); the Python Spec is cross-checked against the Lean Spec on every other case"""
    save = found.no_shrink
    found.no_shrink = True
    try:
        for m, items in large_cases(ctx.rng, 1 if ctx.quick else 4):
            recs = run_impl(m, items, tmp)
            judge_history(ctx, found, m, items, recs, None)
            n = max((len(r['cov']) for r in recs if r.get('cov') is not None), default=0)
            ctx.count('large region (>= 2^16 deepest pixels)' if n >= 2 ** 16 else 'large region (below 2^16!)')
    finally:
        found.no_shrink = save
    ctx.note('large-region slice judged against the Python copy of the Spec (Lean driver not used at this size)')


def debug_slice(ctx, found, tmp):
    """the corpus and a sample of histories again with DEBUG logging: every answer must be what it is at the default level"""
    hs = [(c['m'], c['items']) for c in corpus_cases()] + [rand_history(ctx.rng, False) for _ in range(25 if ctx.quick else 200)]
    hs += [count_preserving(ctx.rng, ctx.rng.choice([2, 3, 5, 8])) for _ in range(10)]
    save = found.env
    found.env = 'logging-debug'
    try:
        with debug_logging():
            run_histories(ctx, found, hs, tmp)
            check_containers(ctx, found, systematic_containers(ctx.rng, 4)[::8], tmp)
    finally:
        found.env = save
    ctx.count('debug-logging slice', len(hs))


O_SLICE = r"""
import json, sys
sys.path.insert(0, %(harness)r)
import common
common.use_repo()
import corr_C08 as c
out = []
for m, items in json.loads(%(cases)r):
    try:
        recs = c.run_impl(m, items)
        j = c.judge_spec(m, items, recs, c.py_spec(m, [c.resolve(m, it) for it in items]))
        trace = [(r.get('status'), r.get('state'), r.get('obs'), r.get('crash')) for r in recs]
    except Exception as e:
        j, trace = ('harness', 0, '%%s: %%s' %% (type(e).__name__, e), 'normalised'), []
    out.append(dict(judge=j, trace=trace))
# validation paths that do not go through a history
from AegeanTools.regions import Region
probes = {}
for name, fn in (('add_poly with two positions', lambda: Region(3).add_poly([[0.1, 0.1], [0.2, 0.2]])),
                 ('add_poly with no positions', lambda: Region(3).add_poly([]))):
    try:
        fn()
        probes[name] = 'accepted'
    except Exception as e:
        probes[name] = type(e).__name__
print('RESULT ' + json.dumps(dict(cases=out, probes=probes, optimize=sys.flags.optimize)))
"""


def scalar_pixel_probe(ctx):
    """add_pixels documents `pix : int or iterable`: a single pixel number must act like a one-element list"""
    from AegeanTools.regions import Region
    for val, name in ((5, 'int'), (np.int64(5), 'numpy.int64')):
        case = dict(m=3, call='Region(3).add_pixels(%s 5, 3)' % name)
        try:
            r = Region(3)
            r.add_pixels(val, 3)
            r._renorm()
            ok = state_str(r) == 'm3 c0 1: 2: 3:5'
            detail = 'add_pixels(5, 3) left %s' % state_str(r)
        except Exception as e:
            ok, detail = False, 'add_pixels(%s 5, 3) raised %s: %s (the docstring allows "int or iterable")' % (name, type(e).__name__, e)
        if not ok:
            ctx.fail('spec', case, detail, dict(site='regions.Region.add_pixels',
                                                what='raises' if 'raised' in detail else 'covered-set', scalar_pixel=True))
            break
        ctx.count('scalar pixel probe')


def optimize_cases(rng):
    hs = []
    for m, gap in ((3, 1), (4, 2), (4, -1), (5, 3), (3, -2)):
        om = m - gap
        for k in ('W', 'I', 'X'):
            p = rng.randrange(12 * 4 ** min(om, m))
            mine = sorted({p * 4 ** gap + 1, p * 4 ** gap + 2, 5}) if gap > 0 else sorted({p, 7})
            ops = [p] if gap > 0 else [4 ** (-gap) * p + 1]
            hs.append((m, [['N', m, mine], [k, {'m': om, 'build': [['N', om, ops]]}], ['G'], ['D']]))
    hs.append((3, [['N', 3, [1, 2]], ['S', 0], ['L', 0], ['Q', [1, 3]]]))
    return hs


def run_child(flags, cases):
    import subprocess
    import sys as _sys
    script = O_SLICE % dict(harness=os.path.join(common.VERIF, 'harness'), cases=json.dumps(cases))
    env = dict(os.environ)
    env.pop('PYTHONOPTIMIZE', None)
    p = subprocess.run([_sys.executable] + flags + ['-W', 'ignore', '-c', script], stdout=subprocess.PIPE,
                       stderr=subprocess.PIPE, text=True, timeout=600, env=env)
    for line in p.stdout.splitlines():
        if line.startswith('RESULT '):
            return json.loads(line[7:])
    raise common.LeanError('python %s child failed: %s' % (' '.join(flags), p.stderr[-800:]))


def optimize_slice(ctx, found):
    """the refusal contract (operands of another depth for without/intersect/symdiff; add_poly with < 3 positions)
    in a child interpreter started with -O, where `assert` statements are compiled away, against the same child
    without -O; each history is also judged against the Spec inside the -O child"""
    cases = optimize_cases(ctx.rng)
    opt = run_child(['-O'], cases)
    ref = run_child([], cases)
    if not opt.get('optimize'):
        ctx.note('python -O child did not run optimised')
    for (m, items), a, b in zip(cases, opt['cases'], ref['cases']):
        case = dict(m=m, items=items, env='python -O')
        sig = None
        if a['judge'] is not None:
            what, idx, detail, alphabet = a['judge']
            sig = dict(site='regions.Region', what=what, alphabet=alphabet, env='python -O')
            detail = '[python -O] ' + detail
        elif a['trace'] != b['trace']:
            i = next(k for k, (x, y) in enumerate(zip(a['trace'], b['trace'])) if x != y)
            sig = dict(site='regions.Region', what='environment-dependence', env='python -O')
            detail = 'item %d %s: under python -O %s, without -O %s' % (i, json.dumps(items[i])[:80], a['trace'][i], b['trace'][i])
        if sig and ('env', sig['what']) not in found.kinds:
            found.kinds[('env', sig['what'])] = 1
            ctx.fail('spec', case, detail, sig)
        ctx.count('python -O slice')
        ctx.case(case)
    for name in opt['probes']:
        if opt['probes'][name] != ref['probes'].get(name):
            ctx.fail('spec', dict(probe=name, env='python -O'),
                     '%s: %s under python -O, %s without' % (name, opt['probes'][name], ref['probes'].get(name)),
                     dict(site='regions.Region.add_poly', what='environment-dependence', env='python -O'))


# ------------------------------------------------------------------------------------------------
# corpus: the witnesses of the ledger, run first on every run

CORPUS = [
    # 12: `/` in union with a finer region (ids 1.25, 2.25) and in _renorm
    dict(m=2, items=[['U', 1, {'m': 3, 'build': [['N', 3, [5, 9, 100]]]}], ['D']]),
    # 13: stale `demoted` after add_pixels below maxdepth
    dict(m=4, items=[['N', 4, [1]], ['D'], ['A', 3, [3]], ['D']]),
    # 13b (open): raw add_pixels overlapping an existing level; a query then changes the next area
    dict(m=4, items=[['A', 4, [4]], ['A', 3, [1]], ['G'], ['D'], ['G']]),
    # maxdepth = 1: _demote_all used the loop variable after an empty loop
    dict(m=1, items=[['N', 1, [3]], ['D'], ['Q', [3, 4]], ['G']]),
    # a query between two additions, quads completing across the query
    dict(m=3, items=[['N', 3, [0, 1, 2]], ['Q', [3]], ['N', 3, [3]], ['G'], ['D'], ['P'], ['G']]),
    # the whole sky: a position that is in no pixel (NaN, +-inf in either coordinate) must still be outside
    dict(m=1, items=[['N', 1, list(range(48))], ['Q', [0, 17, 47]], ['G']]),
    dict(m=2, items=[['N', 2, list(range(192))], ['Q', [5, 100]], ['D']]),
    dict(m=3, items=[['N', 3, list(range(768))], ['Q', [700]]]),
    # query, count-preserving change of members, query again
    dict(m=2, items=[['N', 2, [1, 2]], ['Q', [1, 2, 3]], ['X', {'m': 2, 'build': [['N', 2, [2, 3]]]}], ['Q', [1, 2, 3]], ['D']]),
    # operands of other depths for without/intersect/symdiff: refused, region unchanged
    dict(m=4, items=[['N', 4, [32, 33, 40, 47, 300]], ['W', {'m': 2, 'build': [['N', 2, [2]]]}], ['G'],
                     ['I', {'m': 5, 'build': [['N', 5, [130]]]}], ['D']]),
    # a loaded region is a fresh object: mutate one copy, load again, observe
    dict(m=3, items=[['N', 3, [0, 1, 9]], ['S', 0], ['L', 0], ['W', {'m': 3, 'build': [['N', 3, [1]]]}], ['L', 0], ['D'],
                     ['WF', 0], ['L', 0], ['G'], ['L', 1]]),
    # union(renorm=False) then query (open finding family: un-normalised state)
    dict(m=3, items=[['N', 2, [1]], ['U', 0, {'m': 3, 'build': [['N', 3, [4, 5]]]}], ['G']]),
]


def corpus_cases():
    out = list(CORPUS)
    for fn in sorted(glob.glob(os.path.join(common.VERIF, 'corpus', 'C08', '*.json'))):
        try:
            c = json.load(open(fn))
            out.append(dict(m=c['m'], items=c['items']))
        except Exception:
            pass
    return out


def run(ctx):
    common.use_repo()
    found = Found()
    tmp = ctx.tmpdir()
    rng = ctx.rng
    run_histories(ctx, found, [(c['m'], c['items']) for c in corpus_cases()], tmp)
    # bounded-exhaustive
    if ctx.quick:
        exhaustive(ctx, found, 2, 3, tmp)
        exhaustive(ctx, found, 3, 3, tmp)
    else:
        # all 2 x 12^4 sequences of length 4; length 5 (248 832 at one depth, ~17 min of driver time) is sampled
        exhaustive(ctx, found, 2, 4, tmp)
        exhaustive(ctx, found, 3, 4, tmp)
        for m in (2, 3):
            al = alphabet(m)
            hs = [(m, [al[rng.randrange(len(al))] for _ in range(5)]) for _ in range(12000)]
            for k in range(0, len(hs), 3000):
                run_histories(ctx, found, hs[k:k + 3000], tmp)
            ctx.count('sampled m=%d len=5' % m, len(hs))
    # several objects and .mim files: save / load / operands loaded from files, every sequence of length 5
    file_stream(ctx, found, 2, 5, tmp, wide=not ctx.quick)
    gap_stream(ctx, found, tmp)
    membership_stream(ctx, found, tmp)
    # random histories: normalising alphabet, then with the raw primitives too
    n = 120 if ctx.quick else 1500
    for raw_ok in (False, True):
        hs = [rand_history(rng, raw_ok) for _ in range(n if not raw_ok else n // 3)]
        for k in range(0, len(hs), 200):
            run_histories(ctx, found, hs[k:k + 200], tmp)
    # MIMAS.combine_regions: every non-empty subset of the six stages with overlapping shapes, then random ones
    descs = []
    for m in ([5] if ctx.quick else [3, 4, 5, 6, 7]):
        descs += systematic_containers(rng, m)
    descs += [random_container(rng) for _ in range(6 if ctx.quick else 120)]
    check_containers(ctx, found, descs, tmp)
    large_slice(ctx, found, tmp)
    debug_slice(ctx, found, tmp)
    optimize_slice(ctx, found)
    scalar_pixel_probe(ctx)          # last: its VIOLATION (pending fix C08-04) must not hide any other
    ctx.extra['spec_failure_kinds'] = {'/'.join(str(x) for x in k): v for k, v in found.kinds.items()}


def search(ctx):
    """wider random sweep, implementation vs Spec (Python copy of the Spec if the driver is down)"""
    common.use_repo()
    if any(f['kind'] == 'spec' for f in ctx.failures):
        return
    found = Found()
    rng = ctx.rng
    for c in corpus_cases():
        recs = run_impl(c['m'], c['items'])
        j = judge_spec(c['m'], c['items'], recs, py_spec(c['m'], [resolve(c['m'], it) for it in c['items']]))
        if j is not None:
            report_spec(ctx, found, c['m'], c['items'], j)
    for _ in range(3000):
        if any(f['kind'] == 'spec' and (f['signature'] or {}).get('alphabet') == 'normalised' for f in ctx.failures):
            break
        m, items = rand_history(rng, False)
        recs = run_impl(m, items)
        j = judge_spec(m, items, recs, py_spec(m, [resolve(m, it) for it in items]))
        ctx.case(dict(m=m, n=len(items)))
        if j is not None:
            report_spec(ctx, found, m, items, j)


def replay(ctx, rec):
    common.use_repo()
    c = rec['case']
    found = Found()
    if c.get('via') == 'MIMAS.combine_regions' and 'container' in c:
        bad = container_verdict(c['container'], ctx.tmpdir())
        if bad:
            ctx.fail('spec', c, bad, dict(site='MIMAS.combine_regions', what='order-of-construction',
                                          stages='+'.join(k for k in STAGES if c['container'].get(k))))
        ctx.case(c)
        return
    if 'call' in c:
        scalar_pixel_probe(ctx)
        return
    if c.get('env') == 'python -O':
        if 'probe' in c:
            optimize_slice(ctx, found)
            return
        a = run_child(['-O'], [(c['m'], c['items'])])['cases'][0]
        b = run_child([], [(c['m'], c['items'])])['cases'][0]
        if a['judge'] is not None:
            ctx.fail('spec', c, '[python -O] ' + a['judge'][2], rec.get('signature'))
        elif a['trace'] != b['trace']:
            ctx.fail('spec', c, 'under python -O %s, without -O %s' % (a['trace'], b['trace']), rec.get('signature'))
        ctx.case(c)
        return
    cm = debug_logging() if c.get('env') == 'logging-debug' else contextlib.nullcontext()
    found.env = c.get('env')
    with cm:
        recs = run_impl(c['m'], c['items'], ctx.tmpdir())
    mr = model_lines(ctx, [(c['m'], c['items'])])[0] if (ctx.driver_ok and not c.get('large')) else None
    spec = [(x[4], x[5]) for x in mr] if mr is not None else py_spec(c['m'], [resolve(c['m'], it) for it in c['items']])
    j = judge_spec(c['m'], c['items'], recs, spec)
    if j is not None:
        report_spec(ctx, found, c['m'], c['items'], j, do_shrink=False)
    elif mr is not None:
        judge_history(ctx, found, c['m'], c['items'], recs, mr)
    ctx.case(c)
