"""
Shared plumbing for the per-property checks (see /verif/DESIGN.md §2, §7).

A check for property Cxx is the module harness/corr_Cxx.py exposing

    run(ctx)    -> None     correspondence: implementation vs Lean model (+ Spec on every case)
    search(ctx) -> None     optional: failing-input search, implementation vs Spec, used when a
                            proof obligation or the correspondence no longer checks

Both report through ctx.case(...), ctx.fail(...).  This file provides the context object, the
Lean driver pipe, the Lean build/audit step, evidence writing and the known-findings matcher.
"""
import hashlib
import json
import os
import random
import re
import shutil
import struct
import subprocess
import sys
import tempfile
import time

VERIF = os.path.dirname(os.path.dirname(os.path.abspath(__file__)))
LEAN_DIR = os.path.join(VERIF, 'lean')
ALLOWED_AXIOMS = {'propext', 'Classical.choice', 'Quot.sound'}
FORBIDDEN = re.compile(r'\bsorry\b|\badmit\b|^\s*axiom\s|native_decide|bv_decide|implemented_by|\bunsafe\s|maxHeartbeats\s+0')


def repo_path():
    return os.environ.get('AEGEAN_REPO', '/repo')


def use_repo():
    """Put the tree under test first on sys.path (overrides the editable install)."""
    r = repo_path()
    if r in sys.path:
        sys.path.remove(r)
    sys.path.insert(0, r)
    os.environ['PYTHONPATH'] = r + os.pathsep + os.environ.get('PYTHONPATH', '')
    return r


# ---------- float <-> hex -------------------------------------------------------------------

def f2h(x):
    return 'x%016x' % struct.unpack('<Q', struct.pack('<d', float(x)))[0]


def h2f(s):
    assert s[0] == 'x' and len(s) == 17, s
    return struct.unpack('<d', struct.pack('<Q', int(s[1:], 16)))[0]


def close(a, b, rel=1e-11, abs_=0.0):
    if a != a and b != b:
        return True
    if a != a or b != b:
        return False
    if a == b:
        return True
    return abs(a - b) <= max(abs_, rel * max(1.0, abs(a), abs(b)))


# ---------- Lean side -----------------------------------------------------------------------

class LeanError(Exception):
    pass


def run_cmd(cmd, cwd=None, timeout=3600, env=None):
    p = subprocess.run(cmd, cwd=cwd, stdout=subprocess.PIPE, stderr=subprocess.STDOUT, text=True,
                       timeout=timeout, env=env)
    return p.returncode, p.stdout


def regenerate(prop, repo):
    """Run the translator for this property (if it has targets). Returns status dict."""
    sys.path.insert(0, os.path.join(VERIF, 'translator'))
    import targets  # noqa
    if prop not in targets.TARGETS:
        return {}
    out = os.path.join(LEAN_DIR, 'Aegean', 'Generated', prop + '.lean')
    return targets.generate(prop, repo, out)


def lean_build(modules):
    """lake build the given modules; returns (ok, log)."""
    rc, out = run_cmd(['lake', 'build'] + modules, cwd=LEAN_DIR)
    return rc == 0, out


def lean_errors(log, limit=12):
    errs = [l for l in log.splitlines() if l.startswith('error:')]
    return errs[:limit]


def transitive_imports(module):
    """Aegean.* modules reachable from `module` (including itself)"""
    seen, todo = [], [module]
    while todo:
        m = todo.pop()
        if m in seen:
            continue
        fn = os.path.join(LEAN_DIR, *m.split('.')) + '.lean'
        if not os.path.exists(fn):
            continue
        seen.append(m)
        for im in re.findall(r'^import\s+(Aegean\.\S+)', open(fn).read(), re.M):
            todo.append(im)
    return seen


def audit(prop):
    """
    #print axioms for every theorem of the property file + grep for forbidden tokens.
    Returns dict(theorems=[...], axioms={thm: [...]}, bad_axioms=[...], forbidden=[...]).
    """
    files = [os.path.join(LEAN_DIR, *m.split('.')) + '.lean' for m in transitive_imports(f'Aegean.Properties.{prop}')
             if '.Generated.' not in m]
    files = [f for f in files if os.path.exists(f)]
    forbidden = []
    for fn in files:
        incomment = 0
        for k, line in enumerate(open(fn), 1):
            # strip block comments (coarse but adequate: we never put code after a comment close)
            code = line
            if incomment:
                if '-/' in code:
                    code = code.split('-/', 1)[1]
                    incomment = 0
                else:
                    continue
            while '/-' in code:
                pre, rest = code.split('/-', 1)
                if '-/' in rest:
                    code = pre + rest.split('-/', 1)[1]
                else:
                    code = pre
                    incomment = 1
            code = code.split('--', 1)[0]
            if FORBIDDEN.search(code):
                forbidden.append(f"{os.path.relpath(fn, LEAN_DIR)}:{k}: {line.strip()}")
    pfile = os.path.join(LEAN_DIR, 'Aegean', 'Properties', prop + '.lean')
    thms = []
    ns = None
    src = open(pfile).read()
    m = re.search(r'^namespace\s+(\S+)', src, re.M)
    if m:
        ns = m.group(1)
    for m in re.finditer(r'^(?:@\[[^\]]*\]\s*)?(?:private\s+)?theorem\s+(\S+)', src, re.M):
        thms.append(m.group(1))
    audit_src = f"import Aegean.Properties.{prop}\n" + (f"open {ns}\n" if ns else "") + \
        "".join(f"#print axioms {ns + '.' if ns else ''}{t}\n" for t in thms)
    tmp = os.path.join(LEAN_DIR, f'.audit_{prop}_{os.getpid()}.lean')
    with open(tmp, 'w') as f:
        f.write(audit_src)
    try:
        rc, out = run_cmd(['lake', 'env', 'lean', tmp], cwd=LEAN_DIR)
    finally:
        os.unlink(tmp)
    axioms = {}
    # output: 'X' depends on axioms: [a, b]   |  'X' does not depend on any axioms
    for m in re.finditer(r"'([^']+)' depends on axioms: \[([^\]]*)\]", out, re.S):
        axioms[m.group(1)] = [a.strip() for a in m.group(2).replace('\n', ' ').split(',') if a.strip()]
    for m in re.finditer(r"'([^']+)' does not depend on any axioms", out):
        axioms[m.group(1)] = []
    bad = sorted({a for v in axioms.values() for a in v} - ALLOWED_AXIOMS)
    return dict(ok=(rc == 0 and not bad and not forbidden and len(axioms) == len(thms)),
                theorems=thms, axioms=axioms, bad_axioms=bad, forbidden=forbidden,
                log=out if rc != 0 else '')


class Driver:
    """Batch line protocol to `lake env lean --run Driver/Main<prop>.lean`."""

    def __init__(self, prop):
        self.prop = prop
        self.main = os.path.join('Driver', f'Main{prop}.lean')

    def batch(self, lines, timeout=3600):
        if not lines:
            return []
        data = "\n".join(lines) + "\n"
        p = subprocess.run(['lake', 'env', 'lean', '--run', self.main], cwd=LEAN_DIR, input=data,
                           stdout=subprocess.PIPE, stderr=subprocess.PIPE, text=True, timeout=timeout)
        if p.returncode != 0:
            raise LeanError(f"driver failed rc={p.returncode}: {p.stderr[-2000:]} {p.stdout[-500:]}")
        out = p.stdout.splitlines()
        if len(out) != len(lines):
            raise LeanError(f"driver returned {len(out)} lines for {len(lines)} requests; stderr={p.stderr[-500:]}")
        return out


# ---------- context -------------------------------------------------------------------------

class Ctx:
    def __init__(self, prop, tier, seed, replay=None):
        self.prop = prop
        self.tier = tier
        self.seed = seed
        self.rng = random.Random(f"{prop}/{seed}")
        self.repo = repo_path()
        self.replay = replay
        self.t0 = time.time()
        self.evaluations = 0
        self.nontrivial = set()
        self.samples = []
        self.histogram = {}
        self.failures = []     # dicts: kind ('corr'|'spec'|'proof'), case, detail, signature
        self.notes = []
        self.extra = {}
        self.driver = Driver(prop)
        self.driver_ok = True
        self._tmp = None

    @property
    def quick(self):
        return self.tier == 'quick'

    def tmpdir(self):
        if self._tmp is None:
            base = '/dev/shm' if os.path.isdir('/dev/shm') else '/var/tmp'
            self._tmp = tempfile.mkdtemp(prefix=f'verif-{self.prop}-', dir=base)
        return self._tmp

    def cleanup(self):
        if self._tmp and os.path.isdir(self._tmp):
            shutil.rmtree(self._tmp, ignore_errors=True)

    def count(self, key, n=1):
        self.histogram[key] = self.histogram.get(key, 0) + n

    def case(self, case, nontrivial_key=None, sample_every=None):
        """register one evaluated case; nontrivial_key (hashable) marks it distinct+nontrivial"""
        self.evaluations += 1
        prog = os.environ.get('VERIF_PROGRESS')
        if prog and (self.evaluations < 50 or self.evaluations % 20 == 0 or time.time() - getattr(self, '_tprog', 0) > 0.5):
            self._tprog = time.time()
            try:
                with open(prog + '.tmp', 'w') as f:
                    json.dump(dict(evaluations=self.evaluations, case=case), f, default=str)
                os.replace(prog + '.tmp', prog)
            except Exception:
                pass
        if nontrivial_key is not None:
            self.nontrivial.add(nontrivial_key if isinstance(nontrivial_key, (str, int, tuple))
                                else json.dumps(nontrivial_key, sort_keys=True))
        if len(self.samples) < 5 or (sample_every and self.evaluations % sample_every == 0 and len(self.samples) < 12):
            self.samples.append(case)

    def fail(self, kind, case, detail, signature=None):
        self.failures.append(dict(kind=kind, case=case, detail=detail, signature=signature or {}))

    def note(self, s):
        self.notes.append(s)
        print(f"[{self.prop}] {s}", flush=True)


# ---------- known findings ------------------------------------------------------------------

def load_known(prop):
    p = os.path.join(VERIF, 'known_findings.json')
    if not os.path.exists(p):
        return []
    return [e for e in json.load(open(p)).get('findings', []) if e['property'] == prop]


def matches(entry, failure):
    """An open entry matches a failure iff every key of entry['signature'] is present with the
    same value in the failure's signature (a small predicate over the *minimised* case)."""
    if entry.get('status') != 'open':
        return False
    sig = entry.get('signature') or {}
    if not sig:
        return False
    fs = failure.get('signature') or {}
    return all(k in fs and fs[k] == v for k, v in sig.items())


def write_replay(prop, failure, extra=None):
    d = os.path.join(VERIF, 'replays')
    os.makedirs(d, exist_ok=True)
    blob = json.dumps(failure, sort_keys=True, default=str)
    h = hashlib.sha1(blob.encode()).hexdigest()[:10]
    path = os.path.join(d, f'{prop}-{h}.json')
    rec = dict(property=prop, **failure)
    if extra:
        rec.update(extra)
    with open(path, 'w') as f:
        json.dump(rec, f, indent=1, default=str)
    return path


def write_evidence(ctx, level, obligations, discharged, checker_cmd, trusted_base, assumptions,
                   violations, rule, extra=None):
    os.makedirs(os.path.join(VERIF, 'evidence'), exist_ok=True)
    cov = dict(
        obligations=obligations, discharged=discharged, checker_cmd=checker_cmd,
        trusted_base=trusted_base,
        evaluations=ctx.evaluations, distinct_nontrivial=len(ctx.nontrivial), rule=rule,
        samples=ctx.samples if ctx.samples else ["(no correspondence case was run)"],
        histogram=ctx.histogram, notes=ctx.notes,
    )
    cov.update(ctx.extra)
    if extra:
        cov.update(extra)
    ev = dict(property_id=ctx.prop, tier=ctx.tier, seed=ctx.seed, level=level, coverage=cov,
              assumptions=assumptions, wall_s=round(time.time() - ctx.t0, 2), violations=violations)
    # evidence/ describes runs against /repo itself; runs against another tree (self-tests, seeded
    # changes: AEGEAN_REPO=<scratch copy>) must not overwrite it
    if os.path.realpath(repo_path()) != os.path.realpath('/repo'):
        os.makedirs(os.path.join(VERIF, 'replays'), exist_ok=True)
        target = os.path.join(VERIF, 'replays', f'evidence-{ctx.prop}-othertree.json')
    else:
        target = os.path.join(VERIF, 'evidence', ctx.prop + '.json')
    with open(target, 'w') as f:
        json.dump(ev, f, indent=1, default=str)
