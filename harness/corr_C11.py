"""
C11 — correspondence + search for `find_islands(region=…, wcs=…)` (and `find_sources_in_image(mask=…)`: a handful of
runs in the quick tier — regions with holes cut by `Region.without`, given as a Region object and as a .mim
file — many more in the thorough tier).

The Lean side is C02's model with the region test (`Model.C11.findRestricted`); the theorems of
`Properties/C11.lean` say it equals the unrestricted run filtered by "some own pixel centre is inside".
WCS and HEALPix are oracles: for every case the harness evaluates

        inside[r, c] = region.sky_within(*wcs.wcs.all_pix2world([[c, r]], 0)[0], degin=True)

(the centre of numpy pixel [r, c] is the 0-based FITS pixel (c, r)) and ships the bit mask to the driver.

Two streams:
* table : a plate-carrée WCS with 1 degree pixels behind a real `WCSHelper`, and a duck-typed region whose
          `sky_within` looks the (rounded) position up in an arbitrary H x W bit table — any inside-pattern
          can be realised exactly: half planes cutting elongated / L-shaped islands, single pixels,
          rectangles, random; non-square grids and boxes so that a row/column swap or an origin shift shows;
* sky   : real `Region` objects (circles, polygons; several depths) and real SIN/TAN/ZEA/ARC/STG headers;
          cases whose bit mask changes under a 1e-9 degree perturbation of the positions are skipped
          (counted as `ambiguous`).
"""
import logging
import os
import warnings

import numpy as np

import common
import corr_C02 as base

LEVEL = 'proof'
LEANCHECKER = True
RULE = ("a case is one grid + one region run through the real find_islands(region=, wcs=); non-trivial = the "
        "unrestricted run has >= 2 islands, at least one island is kept and at least one is dropped, and at least one "
        "island has own pixels both inside and outside the region (straddles the edge); distinct by the hash of grid + mask")
ASSUMPTIONS = [
    "astropy.wcs (pixel -> sky) and healpy/Region.sky_within (sky -> membership) are oracles: the per-pixel predicate "
    "`inside` is evaluated by them in the harness, the theorems hold for every predicate",
    "'identical fitted values' is not a theorem: the fit of an island is a function of the island, image, rms and psf only "
    "(by construction of find_sources_in_image); the thorough tier compares the values of the restricted run with the "
    "filtered unrestricted run bit for bit",
] + base.ASSUMPTIONS
TRUSTED = base.TRUSTED
PARTIAL = []

NULLLOG = base.NULLLOG
_history = dict(last_file_region=None, last_sky=None, off_sky_inside=0)


# ------------------------------------------------------------------------------------------------
# every call into AegeanTools made while a case is being BUILT is guarded: an exception raised by the code under
# test on a valid input is a `spec` failure carrying the (re-creatable) case, never a crash of the harness

GENERATORS = {}


def gen_guard(fn):
    """wrap a case generator gen(rng, *args): if it raises (the generators call WCSHelper / Region / sky_within of the
    tree under test to evaluate the oracle), return a record from which the replay can re-create the attempt"""
    import functools
    import traceback

    @functools.wraps(fn)
    def wrapped(rng, *args):
        state = rng.bit_generator.state
        try:
            return fn(rng, *args)
        except Exception as e:
            frames = [f for f in traceback.extract_tb(e.__traceback__) if 'AegeanTools' in f.filename]
            site = (f"{os.path.basename(frames[-1].filename)}:{frames[-1].name}" if frames else 'harness')
            return dict(kind='generator-raised', generator=fn.__name__, args=[int(a) for a in args], rng_state=state,
                        error=f"{type(e).__name__}: {e}", raised_in=site,
                        trace=[f"{os.path.basename(f.filename)}:{f.lineno}:{f.name}" for f in traceback.extract_tb(e.__traceback__)][-6:])
    GENERATORS[fn.__name__] = wrapped
    return wrapped


def report_generator_raise(ctx, c):
    ctx.fail('spec', c, f"{c['raised_in']} raised {c['error']} while the oracle for a valid case was being evaluated "
             f"(generator {c['generator']}{tuple(c['args'])}; call chain {' > '.join(c['trace'])})",
             dict(site=c['raised_in'], clause='raises', region=True, generator=c['generator']))
    ctx.count('generator-raised')
    ctx.case(dict(kind='generator-raised', generator=c['generator']))


# ------------------------------------------------------------------------------------------------
# table stream: exact, arbitrary inside-patterns


class TableRegion(object):
    """duck-typed region: membership of a sky position is looked up in a bit table indexed by
    (round(dec), round(ra)) — with the plate-carrée WCS below that is (row, column)"""

    def __init__(self, table):
        self.table = np.asarray(table, dtype=bool)

    def sky_within(self, ra, dec, degin=False):
        ra = np.atleast_1d(np.asarray(ra, dtype=float))
        dec = np.atleast_1d(np.asarray(dec, dtype=float))
        if not degin:
            ra, dec = np.degrees(ra), np.degrees(dec)
        ra = np.where(ra > 180, ra - 360, ra)
        out = np.zeros(ra.shape, dtype=bool)
        H, W = self.table.shape
        for k, (a, d) in enumerate(zip(ra, dec)):
            if np.isfinite(a) and np.isfinite(d):
                r, c = int(round(d)), int(round(a))
                if 0 <= r < H and 0 <= c < W:
                    out[k] = self.table[r, c]
        return out


_table_wcs = {}


def table_wcs():
    """real WCSHelper: RA/DEC plate carrée, 1 deg pixels, FITS pixel (1,1) at (0,0) ⇒ 0-based pixel (c, r) ↦ (c°, r°)"""
    if 'w' not in _table_wcs:
        from astropy.io import fits
        from AegeanTools.wcs_helpers import WCSHelper
        h = fits.Header()
        for k, v in dict(NAXIS=2, NAXIS1=20, NAXIS2=20, CTYPE1='RA---CAR', CTYPE2='DEC--CAR', CRVAL1=0.0, CRVAL2=0.0,
                         CDELT1=1.0, CDELT2=1.0, CRPIX1=1.0, CRPIX2=1.0, BMAJ=3.0, BMIN=3.0, BPA=0.0).items():
            h[k] = v
        with warnings.catch_warnings():
            warnings.simplefilter('ignore')
            _table_wcs['w'] = WCSHelper.from_header(h)
    return _table_wcs['w']


def inside_table(rng, H, W, on, islands=()):
    """an inside-pattern aimed at the islands' edges; `islands` = [(box, pixels)] of the unrestricted Spec"""
    kinds = ['half-col', 'half-row', 'rect', 'single', 'random', 'all', 'none', 'on-pixel', 'off-only']
    big = [w for w in islands if len(w[1]) >= 2]
    if big:
        kinds += ['straddle-col', 'straddle-row', 'straddle-col', 'straddle-row', 'one-own-pixel', 'box-not-own',
                  'straddle-col', 'straddle-row']
    kind = rng.choice(kinds)
    t = np.zeros((H, W), dtype=bool)
    if kind in ('straddle-col', 'straddle-row', 'one-own-pixel', 'box-not-own'):
        box, pix = big[rng.integers(0, len(big))]
        if kind == 'straddle-col' and box[3] - box[2] >= 2:
            k = rng.integers(box[2] + 1, box[3])
            t[:, k:] = True
            if rng.random() < 0.5:
                t = ~t
        elif kind == 'straddle-row' and box[1] - box[0] >= 2:
            k = rng.integers(box[0] + 1, box[1])
            t[k:, :] = True
            if rng.random() < 0.5:
                t = ~t
        elif kind == 'box-not-own':
            t[box[0]:box[1], box[2]:box[3]] = True
            for q in pix:
                t[q] = False
        else:
            kind = 'one-own-pixel'
            t[pix[rng.integers(0, len(pix))]] = True
    elif kind == 'half-col':
        k = rng.integers(0, W + 1)
        t[:, k:] = True
        if rng.random() < 0.5:
            t = ~t
    elif kind == 'half-row':
        k = rng.integers(0, H + 1)
        t[k:, :] = True
        if rng.random() < 0.5:
            t = ~t
    elif kind == 'rect':
        a, b = sorted(rng.integers(0, H + 1, 2))
        c, d = sorted(rng.integers(0, W + 1, 2))
        t[a:b + 1, c:d + 1] = True
    elif kind == 'single':
        t[rng.integers(0, H), rng.integers(0, W)] = True
    elif kind == 'random':
        t = rng.random((H, W)) < rng.choice([0.05, 0.2, 0.5])
    elif kind == 'all':
        t[:] = True
    elif kind == 'on-pixel':
        rr, cc = np.where(on)
        if len(rr):
            k = rng.integers(0, len(rr))
            t[rr[k], cc[k]] = True
    elif kind == 'off-only':
        t = ~on
    return t, str(kind)


def gen_table_case(rng, small=False):
    kind = ['bars', 'lshape', 'random', 'inbox', 'diag', 'ring', 'sparse', 'bars', 'lshape'][rng.integers(0, 9)]
    hi = 6 if small else 15
    H, W = int(rng.integers(1, hi)), int(rng.integers(1, hi))
    if rng.random() < 0.5 and not small:      # markedly non-square
        if rng.random() < 0.5:
            H = int(rng.integers(1, 5))
        else:
            W = int(rng.integers(1, 5))
    flood = float(rng.choice(base.FLOODS))
    seed = flood + float(rng.choice(base.SEED_STEPS))
    on = base.pattern(rng, H, W, kind)
    im, bkg, rms = base.realise(rng, on, flood, seed, float(rng.choice([0.2, 0.4, 0.7])),
                                zero_mode=int(rng.choice([0, 0, 1])), nan_mode=int(rng.choice([0, 0, 1])))
    islands, _ = base.oracle(im, bkg, rms, flood, seed, None)
    t, tk = inside_table(rng, H, W, on, islands)
    return base.mk_case(kind, im, bkg, rms, flood, seed, inside=t, extra=dict(stream='table', region_kind=tk))


def impl_table(c):
    im, bkg, rms, flood, seed, inside = base.arrays(c)
    return base.run_impl(im, bkg, rms, flood, seed, region=TableRegion(inside), wcs=table_wcs(),
                         variant=base.variant_of(c))


def fixed_cases():
    out = []
    # 1x4 island in row 0, columns 2..5; region = columns >= 4 (the model's negation witness)
    im = np.zeros((3, 7)); im[0, 2:6] = 6.0
    t = np.zeros((3, 7), dtype=bool); t[:, 4:] = True
    out.append(base.mk_case('bar-witness', im, np.zeros((3, 7)), np.ones((3, 7)), 4.0, 5.0, inside=t,
                            extra=dict(stream='table', region_kind='half-col')))
    # vertical bar, region = rows >= 5
    im = np.zeros((8, 3)); im[1:7, 2] = 6.0
    t = np.zeros((8, 3), dtype=bool); t[5:, :] = True
    out.append(base.mk_case('bar-witness', im, np.zeros((8, 3)), np.ones((8, 3)), 4.0, 5.0, inside=t,
                            extra=dict(stream='table', region_kind='half-row')))
    # L-shaped island whose corner only is inside; a second island in its box that is wholly inside
    im = np.zeros((6, 6)); im[0:5, 0] = 6.0; im[4, 0:5] = 6.0; im[1, 3] = 7.0
    t = np.zeros((6, 6), dtype=bool); t[1, 3] = True
    out.append(base.mk_case('lshape-witness', im, np.zeros((6, 6)), np.ones((6, 6)), 4.0, 5.0, inside=t,
                            extra=dict(stream='table', region_kind='single')))
    # whole-image region
    out.append(base.mk_case('bar-witness', im, np.zeros((6, 6)), np.ones((6, 6)), 4.0, 5.0, inside=np.ones((6, 6), dtype=bool),
                            extra=dict(stream='table', region_kind='all')))
    return out


# ------------------------------------------------------------------------------------------------
# sky stream: real Region + real projections

PROJ = ['SIN', 'TAN', 'ZEA', 'ARC', 'STG']


def sky_header(rng, H, W):
    from astropy.io import fits
    proj = PROJ[rng.integers(0, len(PROJ))]
    h = fits.Header()
    cd = float(rng.choice([0.01, 0.02, 0.05]))
    vals = dict(NAXIS=2, NAXIS1=W, NAXIS2=H, CTYPE1='RA---' + proj, CTYPE2='DEC--' + proj,
                CRVAL1=float(rng.uniform(5, 355)), CRVAL2=float(rng.uniform(-70, 70)),
                CDELT1=-cd, CDELT2=cd, CRPIX1=float(rng.uniform(1, W)), CRPIX2=float(rng.uniform(1, H)),
                BMAJ=3 * cd, BMIN=3 * cd, BPA=0.0)
    for k, v in vals.items():
        h[k] = v
    return h, vals


OPS = dict(without='without', intersect='intersect', symdiff='symmetric_difference', union='union')


def spec_ops(spec):
    """the edit history of a circle-based region spec: [(op, circle)], holes being `without` edits"""
    return [('without', h) for h in spec.get('holes', [])] + [(o['op'], o) for o in spec.get('ops', [])]


def make_region(spec, history=False):
    """build the region of a spec.  history=False: a fresh object that is never queried while it is built.
    history=True: the way a long-lived object is used - it is QUERIED (sky_within) after it is created and after
    every edit (without / intersect / symmetric_difference / union), so any cache filled by a query is stale
    at the next edit unless the implementation invalidates it."""
    from AegeanTools.regions import Region
    reg = Region(maxdepth=spec['depth'])
    if spec['shape'] == 'poly':
        reg.add_poly(np.radians(np.array(spec['poly'])))
        return reg
    reg.add_circles(np.radians(spec['ra']), np.radians(spec['dec']), np.radians(spec['radius']))
    probe = (np.array([spec['ra'], spec['ra'] + 0.003]), np.array([spec['dec'], spec['dec'] - 0.002]))
    if history:
        reg.sky_within(probe[0], probe[1], degin=True)
    for op, circ in spec_ops(spec):
        if op == 'union_deeper':
            # union(other, renorm=False) with a FINER region: `other` holds pixels below reg.maxdepth only (it was
            # queried, hence fully demoted, in the history variant), so union() adds nothing through add_pixels and
            # writes the degraded pixels straight into pixeldict[maxdepth] (round 9: stale lookup caches)
            other = Region(maxdepth=spec['depth'] + int(circ.get('extra', 1)))
            other.add_circles(np.radians(circ['ra']), np.radians(circ['dec']), np.radians(circ['radius']))
            if history:
                other.sky_within(probe[0], probe[1], degin=True)
            reg.union(other, renorm=False)
            if history:
                reg.sky_within(probe[0], probe[1], degin=True)
            continue
        other = Region(maxdepth=spec['depth'])
        other.add_circles(np.radians(circ['ra']), np.radians(circ['dec']), np.radians(circ['radius']))
        getattr(reg, OPS[op])(other)
        if history:
            reg.sky_within(probe[0], probe[1], degin=True)
    return reg


def angdist(ra1, dec1, ra2, dec2):
    a1, d1, a2, d2 = (np.radians(x) for x in (ra1, dec1, ra2, dec2))
    h = np.sin((d2 - d1) / 2) ** 2 + np.cos(d1) * np.cos(d2) * np.sin((a2 - a1) / 2) ** 2
    return np.degrees(2 * np.arcsin(np.sqrt(np.clip(h, 0, 1))))


def geometric_bounds(spec, ra, dec):
    """independent (HEALPix-free) bounds on membership for circle-based specs: lo = certainly inside,
    hi = possibly inside.  A circle added with query_disc(inclusive=True) contains every point closer than r to its
    centre and no point farther than r + 3 * max_pixrad; set operations are propagated in three-valued logic."""
    import healpy as hp
    m = 3.0 * float(np.degrees(hp.max_pixrad(2 ** spec['depth']))) + 1e-7

    def circ(c, slack=1.0):
        d = angdist(ra, dec, c['ra'], c['dec'])
        return d < c['radius'] - 1e-7, d < c['radius'] + slack * m
    lo, hi = circ(spec)
    for op, c in spec_ops(spec):
        # a finer region degraded to this depth: inclusive disc at the finer depth + up to one coarse pixel diameter
        blo, bhi = circ(c, 2.0) if op == 'union_deeper' else circ(c)
        if op == 'union_deeper':
            op = 'union'
        if op == 'without':
            lo, hi = lo & ~bhi, hi & ~blo
        elif op == 'intersect':
            lo, hi = lo & blo, hi & bhi
        elif op == 'union':
            lo, hi = lo | blo, hi | bhi
        else:
            lo, hi = (lo & ~bhi) | (blo & ~hi), (hi & ~blo) | (bhi & ~lo)
    return lo, hi


def oracle_inside(wcs, reg, H, W):
    """inside bit mask + whether it is stable under 1e-9 deg perturbations"""
    rr, cc = np.mgrid[0:H, 0:W]
    xy = np.stack([cc.ravel(), rr.ravel()], axis=1).astype(float)
    with warnings.catch_warnings():
        warnings.simplefilter('ignore')
        sky = wcs.wcs.all_pix2world(xy, 0)     # the full pixel -> sky transformation (core WCS + SIP / distortions)
    ra, dec = sky[:, 0], sky[:, 1]
    ins = np.asarray(reg.sky_within(ra, dec, degin=True), dtype=bool)
    # a pixel whose centre has NO sky position (beyond the limb of a hemispheric / all-sky projection) is never
    # inside a region, whatever sky_within says about the NaNs
    on_sky = np.isfinite(ra) & np.isfinite(dec)
    _history['off_sky_inside'] = int((ins & ~on_sky).sum())
    ins = ins & on_sky
    stable = True
    for da, dd in [(1e-9, 0), (-1e-9, 0), (0, 1e-9), (0, -1e-9)]:
        if not np.array_equal(ins, np.asarray(reg.sky_within(ra + da, dec + dd, degin=True), dtype=bool) & on_sky):
            stable = False
    _history['last_sky'] = (ra.reshape(H, W), dec.reshape(H, W))
    return ins.reshape(H, W), stable


def header_from_vals(vals):
    from astropy.io import fits
    h = fits.Header()
    for k, v in vals.items():
        h[k] = v
    return h


@gen_guard
def gen_sky_case(rng):
    from AegeanTools.wcs_helpers import WCSHelper
    kind = ['bars', 'lshape', 'random', 'inbox', 'diag'][rng.integers(0, 5)]
    H, W = int(rng.integers(3, 15)), int(rng.integers(3, 15))
    flood = float(rng.choice(base.FLOODS))
    seed = flood + float(rng.choice(base.SEED_STEPS))
    on = base.pattern(rng, H, W, kind)
    im, bkg, rms = base.realise(rng, on, flood, seed, 0.4, zero_mode=0, nan_mode=int(rng.choice([0, 0, 1])))
    h, vals = sky_header(rng, H, W)
    with warnings.catch_warnings():
        warnings.simplefilter('ignore')
        wcs = WCSHelper.from_header(h)
        # aim the region at a pixel of the image
        r0, c0 = rng.uniform(0, H - 1), rng.uniform(0, W - 1)
        ra0, dec0 = wcs.wcs.wcs_pix2world([[c0, r0]], 0)[0]
    cd = vals['CDELT2']
    if rng.random() < 0.6:
        spec = dict(shape='circle', ra=float(ra0), dec=float(dec0), radius=float(cd * rng.uniform(0.7, 6)),
                    depth=int(rng.choice([9, 10, 11, 12])))
    else:
        d = cd * rng.uniform(1, 5)
        cosd = max(0.2, np.cos(np.radians(dec0)))
        spec = dict(shape='poly', depth=int(rng.choice([10, 11, 12])),
                    poly=[[float(ra0 - d / cosd), float(dec0 - d)], [float(ra0 + d / cosd), float(dec0 - d)],
                          [float(ra0 + d / cosd), float(dec0 + d)], [float(ra0 - d / cosd), float(dec0 + d)]])
    reg = make_region(spec)
    ins, stable = oracle_inside(wcs, reg, H, W)
    if not stable:
        return None
    return base.mk_case(kind, im, bkg, rms, flood, seed, inside=ins,
                        extra=dict(stream='sky', header=vals, region=spec, region_kind=spec['shape']))


def sky_of(vals, H, W):
    from AegeanTools.wcs_helpers import WCSHelper
    with warnings.catch_warnings():
        warnings.simplefilter('ignore')
        wcs = WCSHelper.from_header(header_from_vals(vals))
        rr, cc = np.mgrid[0:H, 0:W]
        sky = wcs.wcs.wcs_pix2world(np.stack([cc.ravel(), rr.ravel()], axis=1).astype(float), 0)
    return wcs, sky[:, 0].reshape(H, W), sky[:, 1].reshape(H, W)


def finish_sky_case(kind, im, vals, spec, wcs, extra):
    H, W = im.shape
    ins, stable = oracle_inside(wcs, make_region(spec), H, W)
    if not stable:
        return None
    return base.mk_case(kind, im, extra.pop('bkg', np.zeros_like(im)), extra.pop('rms', np.ones_like(im)),
                        extra.pop('flood', 4.0), extra.pop('seed', 5.0), inside=ins,
                        extra=dict(dict(stream='sky', header=vals, region=spec, region_kind=extra.pop('region_kind'),
                                        off_sky_inside=_history['off_sky_inside']), **extra))


@gen_guard
def gen_big_island_case(rng, k=0):
    """an extended island of more than 1000 pixels with a TINY region (a small disc of depth-13..15 cells) sitting on
    its peak, well inside its outline: the island has own pixels inside the region and must be kept; a second
    variant puts the tiny region just off the island (dropped)."""
    H, W = int(rng.integers(64, 81)), int(rng.integers(64, 81))
    proj = PROJ[k % len(PROJ)]
    cd = 0.01
    vals = dict(NAXIS=2, NAXIS1=W, NAXIS2=H, CTYPE1='RA---' + proj, CTYPE2='DEC--' + proj,
                CRVAL1=float(rng.uniform(5, 355)), CRVAL2=float(rng.uniform(-70, 70)), CDELT1=-cd, CDELT2=cd,
                CRPIX1=float(W / 2), CRPIX2=float(H / 2), BMAJ=3 * cd, BMIN=3 * cd, BPA=0.0)
    yy, xx = np.mgrid[0:H, 0:W]
    r0, c0 = rng.uniform(H * 0.4, H * 0.6), rng.uniform(W * 0.4, W * 0.6)
    sr, sc = rng.uniform(9, 12), rng.uniform(9, 12)
    im = 40.0 * np.exp(-0.5 * (((yy - r0) / sr) ** 2 + ((xx - c0) / sc) ** 2))
    im[0, 0] = 7.0                       # and a small island in the corner
    wcs, ra, dec = sky_of(vals, H, W)
    on_peak = k % 3 != 2
    pr, pc = (int(round(r0)), int(round(c0))) if on_peak else (1, W - 2)
    spec = dict(shape='circle', ra=float(ra[pr, pc]), dec=float(dec[pr, pc]), radius=float(cd * rng.uniform(1.0, 3.0)),
                depth=int(rng.choice([13, 14, 15])))
    return finish_sky_case('big-island', im, vals, spec, wcs,
                           dict(region_kind='tiny-on-peak' if on_peak else 'tiny-off-island'))


@gen_guard
def gen_limb_case(rng, k=0):
    """hemispheric SIN / all-sky AIT images: pixels beyond the limb have finite data but NO sky position.  One island
    spills over the limb far from the pole (no on-sky pixel in the region: must be dropped), one sits on the pole
    inside a polar-cap region (kept), one at the image centre."""
    if k % 2 == 0:
        proj, cd, W, H, dec0 = 'SIN', 2.0, 64, 64, float(rng.uniform(35, 60)) * (1 if k % 4 == 0 else -1)
    else:
        proj, cd, W, H, dec0 = 'AIT', 4.0, 96, 48, 0.0
    vals = dict(NAXIS=2, NAXIS1=W, NAXIS2=H, CTYPE1='RA---' + proj, CTYPE2='DEC--' + proj,
                CRVAL1=float(rng.uniform(5, 355)), CRVAL2=dec0, CDELT1=-cd, CDELT2=cd,
                CRPIX1=W / 2 + 0.5, CRPIX2=H / 2 + 0.5, BMAJ=3 * cd, BMIN=3 * cd, BPA=0.0)
    wcs, ra, dec = sky_of(vals, H, W)
    on = np.isfinite(ra) & np.isfinite(dec)
    north = dec0 >= 0
    pole_dec = 90.0 if north else -90.0
    im = np.zeros((H, W))
    # limb pixels: on-sky with an off-sky 4-neighbour, in the hemisphere away from the cap's pole
    pad = np.pad(on, 1, constant_values=False)
    edge = on & ~(pad[:-2, 1:-1] & pad[2:, 1:-1] & pad[1:-1, :-2] & pad[1:-1, 2:])
    away = edge & ((dec < dec0 - 30) if north else (dec > dec0 + 30))
    cand = np.argwhere(away & (np.arange(H)[:, None] > 2) & (np.arange(H)[:, None] < H - 3) &
                       (np.arange(W)[None, :] > 2) & (np.arange(W)[None, :] < W - 3))
    if len(cand) == 0:
        return None
    pr, pc = cand[rng.integers(0, len(cand))]
    im[pr - 2:pr + 3, pc - 2:pc + 3] = 6.0                 # spills over the limb
    d_pole = np.where(on, np.abs(dec - pole_dec), np.inf)
    qr, qc = np.unravel_index(np.argmin(d_pole), d_pole.shape)
    if 1 <= qr < H - 1 and 1 <= qc < W - 1:
        im[qr - 1:qr + 2, qc - 1:qc + 2] = 7.0             # on the pole
    im[H // 2 - 1:H // 2 + 1, W // 2 - 1:W // 2 + 2] = 6.5     # image centre
    spec = dict(shape='circle', ra=0.0, dec=pole_dec, radius=float(rng.uniform(8, 16)), depth=int(rng.choice([6, 8, 10])))
    return finish_sky_case('limb', im, vals, spec, wcs, dict(region_kind='polar-cap-' + proj))


@gen_guard
def gen_sip_case(rng, k=0):
    """alternative standard header spelling: TAN-SIP with a quadratic distortion of 1-3 pixels across the image.
    The sky position of a pixel centre is the FULL transformation (all_pix2world), which is what the rest of Aegean
    (WCSHelper.pix2sky) uses for source positions."""
    kind = ['bars', 'lshape', 'random', 'inbox'][rng.integers(0, 4)]
    H, W = int(rng.integers(8, 15)), int(rng.integers(8, 15))
    flood = float(rng.choice(base.FLOODS))
    seed = flood + float(rng.choice(base.SEED_STEPS))
    on = base.pattern(rng, H, W, kind)
    im, bkg, rms = base.realise(rng, on, flood, seed, 0.5, zero_mode=0, nan_mode=0)
    cd = 0.01
    vals = dict(NAXIS=2, NAXIS1=W, NAXIS2=H, CTYPE1='RA---TAN-SIP', CTYPE2='DEC--TAN-SIP',
                CRVAL1=float(rng.uniform(5, 355)), CRVAL2=float(rng.uniform(-60, 60)), CDELT1=-cd, CDELT2=cd,
                CRPIX1=1.0, CRPIX2=1.0, BMAJ=3 * cd, BMIN=3 * cd, BPA=0.0,
                A_ORDER=2, B_ORDER=2, A_2_0=float(rng.choice([-1, 1]) * rng.uniform(0.01, 0.03)), A_0_2=0.0, A_1_1=0.0,
                B_2_0=0.0, B_0_2=float(rng.choice([-1, 1]) * rng.uniform(0.01, 0.03)), B_1_1=float(rng.uniform(-0.01, 0.01)))
    wcs, ra, dec = sky_of_full(vals, H, W)
    r0, c0 = int(rng.integers(H // 2, H)), int(rng.integers(W // 2, W))     # far from CRPIX: large distortion
    spec = dict(shape='circle', ra=float(ra[r0, c0]), dec=float(dec[r0, c0]), radius=float(cd * rng.uniform(0.8, 4)),
                depth=int(rng.choice([12, 13])))
    return finish_sky_case(kind, im, vals, spec, wcs, dict(region_kind='circle-sip', sip=True, bkg=bkg, rms=rms,
                                                           flood=flood, seed=seed))


def sky_of_full(vals, H, W):
    from AegeanTools.wcs_helpers import WCSHelper
    with warnings.catch_warnings():
        warnings.simplefilter('ignore')
        wcs = WCSHelper.from_header(header_from_vals(vals))
        rr, cc = np.mgrid[0:H, 0:W]
        sky = wcs.wcs.all_pix2world(np.stack([cc.ravel(), rr.ravel()], axis=1).astype(float), 0)
    return wcs, sky[:, 0].reshape(H, W), sky[:, 1].reshape(H, W)


def impl_sky(c):
    from AegeanTools.wcs_helpers import WCSHelper
    im, bkg, rms, flood, seed, inside = base.arrays(c)
    with warnings.catch_warnings():
        warnings.simplefilter('ignore')
        wcs = WCSHelper.from_header(header_from_vals(c['header']))
    return base.run_impl(im, bkg, rms, flood, seed, region=make_region(c['region']), wcs=wcs,
                         variant=base.variant_of(c))


def impl_any(c):
    return impl_sky(c) if c.get('stream') == 'sky' else impl_table(c)


# ------------------------------------------------------------------------------------------------


def c11_nontrivial(c):
    im, bkg, rms, flood, seed, inside = base.arrays(c)
    allw, _ = base.oracle(im, bkg, rms, flood, seed, None)
    if len(allw) < 2:
        return False
    kept = [w for w in allw if any(inside[p] for p in w[1])]
    straddle = [w for w in allw if any(inside[p] for p in w[1]) and not all(inside[p] for p in w[1])]
    return 0 < len(kept) < len(allw) and len(straddle) > 0


def evaluate(ctx, cases, use_lean=True):
    for c in cases:
        if c.get('kind') == 'generator-raised':
            report_generator_raise(ctx, c)
    cases = [c for c in cases if c.get('kind') != 'generator-raised']
    lines = [base.request_line(c) for c in cases] if use_lean else None
    outs = base.lean_batch(ctx, lines) if use_lean else [None] * len(cases)
    for c, o in zip(cases, outs):
        try:
            impl = impl_any(c)
        except base.InputMutated as e:
            base.report_mutation(ctx, c, e, dict(region=True))
            impl = e.canon
        except Exception as e:
            impl = f"{type(e).__name__}: {e}"
        model = None
        if use_lean:
            model = base.parse_answer(o)
            if model is None:
                ctx.fail('corr', c, f"driver rejected the request: {o[:200]}", dict(site='driver', what='protocol'))
                continue
        off_in = 0
        if c.get('kind') == 'limb':          # re-evaluated on the tree under test (so that a replay judges the current code)
            try:
                wcs_l, _, _ = sky_of(c['header'], c['H'], c['W'])
                oracle_inside(wcs_l, make_region(c['region']), c['H'], c['W'])
                off_in = _history['off_sky_inside']
            except Exception:
                off_in = 0
        if off_in:
            ctx.fail('spec', dict(c, pretty=base.pretty(c)),
                     f"Region.sky_within reports {off_in} pixel centres that have NO sky position (beyond the limb "
                     f"of the {c['header']['CTYPE1'][-3:]} projection) as inside the region",
                     dict(site='Region.sky_within', clause='no-sky-position-inside', region=True))
        n0 = len(ctx.failures)
        base.judge(ctx, 'C11', c, impl, model)
        for f in ctx.failures[n0:]:      # make the signature say which stream / kind of region
            if f['kind'] == 'spec':
                f['signature'] = dict(f['signature'], stream=c.get('stream'), sip=bool(c.get('sip')))
        # metamorphic, implementation only: a whole-image region changes nothing
        if c.get('region_kind') == 'all' and not isinstance(impl, str):
            im, bkg, rms, flood, seed, inside = base.arrays(c)
            try:
                plain = base.run_impl(im, bkg, rms, flood, seed)
            except Exception as e:
                plain = None
            if plain is not None and [(d['box'], d['pix']) for d in plain] != [(d['box'], d['pix']) for d in impl]:
                ctx.fail('spec', dict(c, pretty=base.pretty(c)), "a region covering every pixel centre changed the result",
                         dict(site='find_islands', clause='whole-image-noop', region=True, stream=c.get('stream')))
        ctx.count('stream:' + str(c.get('stream')))
        ctx.count('region:' + str(c.get('region_kind')))
        ctx.count('kind:' + c['kind'].split('-')[0])
        if c['H'] != c['W']:
            ctx.count('non-square')
        short = dict(kind=c['kind'], stream=c.get('stream'), region=c.get('region_kind'), H=c['H'], W=c['W'],
                     islands=len(model['islands']) if model else None)
        ctx.case(short, nontrivial_key=base.case_key(c) if c11_nontrivial(c) else None, sample_every=499)


def run(ctx):
    common.use_repo()
    rng = base.np_rng(ctx)
    cases = fixed_cases()
    n_table = 1200 if ctx.quick else 30000
    n_sky = 150 if ctx.quick else 3000
    for k in range(n_table):
        cases.append(gen_table_case(rng, small=(k % 5 == 0)))
    amb = 0
    for k in range(n_sky):
        c = gen_sky_case(rng)
        if c is None:
            amb += 1
        else:
            cases.append(c)
    # size threshold: islands > 1000 px with tiny regions on the peak; rarely varied input: hemispheric / all-sky
    # projections with islands spilling over the limb and polar-cap regions
    for k in range(5 if ctx.quick else 40):
        c = gen_big_island_case(rng, k + ctx.seed)
        amb += c is None
        cases += [c] if c is not None else []
    for k in range(40 if ctx.quick else 600):       # alternative standard header spelling: SIP
        c = gen_sip_case(rng, k)
        amb += c is None
        cases += [c] if c is not None else []
    for k in range(6 if ctx.quick else 60):
        c = gen_limb_case(rng, k + ctx.seed)
        amb += c is None
        cases += [c] if c is not None else []
    ctx.count('ambiguous-skipped', amb)
    for lo in range(0, len(cases), 4000):
        evaluate(ctx, cases[lo:lo + 4000])
    # through the public entry point: find_sources_in_image(mask=Region | .mim path) vs the filtered unrestricted run
    finder_hole_runs(ctx, rng, 6 if ctx.quick else 40)
    finder_region_runs(ctx, rng, 2 if ctx.quick else 40)
    finder_edit_runs(ctx, rng, 6 if ctx.quick else 40, deep=False)
    finder_edit_runs(ctx, rng, 6 if ctx.quick else 24, deep=True)


def search(ctx):
    """implementation vs the Python oracle of the Spec only (no Lean), then shrink by cropping"""
    common.use_repo()
    if any(f['kind'] == 'spec' for f in ctx.failures):
        return
    rng = base.np_rng(ctx)
    cases = fixed_cases() + [gen_table_case(rng, small=(k % 2 == 0)) for k in range(2000)]
    for c in cases:
        n0 = len(ctx.failures)
        evaluate(ctx, [c], use_lean=False)
        if any(f['kind'] == 'spec' for f in ctx.failures[n0:]):
            return


def replay(ctx, rec):
    common.use_repo()
    c = {k: v for k, v in rec['case'].items() if k != 'pretty'}
    if c.get('finder'):
        finder_region_one(ctx, c)
        return
    if c.get('kind') == 'generator-raised':        # re-create the attempt from the recorded generator state
        rng = np.random.default_rng()
        rng.bit_generator.state = c['rng_state']
        c = GENERATORS[c['generator']](rng, *c['args'])
        if c is None:
            return
    evaluate(ctx, [c], use_lean=ctx.driver_ok)


# ------------------------------------------------------------------------------------------------
# thorough tier: find_sources_in_image with and without a mask region


WORKFILE = 'field.mim'        # ONE working file name, rewritten with every case's region (a history in one process)
CSV_COLS = ('ra', 'dec', 'peak_flux', 'int_flux', 'a', 'b', 'pa', 'err_ra', 'err_dec', 'err_peak_flux', 'local_rms')


def write_workfile(ctx, spec, history=False):
    path = os.path.join(ctx.tmpdir(), WORKFILE)
    make_region(spec, history=history).save(path)
    _history['last_file_region'] = spec
    return path


def cli_components(ctx, image, mimpath, flood, seed):
    """aegean CLI in process: main([image, --region, path, --table, out]) ; returns the component rows of the table"""
    import contextlib
    import csv
    import io
    import logging
    from AegeanTools.CLI import aegean
    out = os.path.join(ctx.tmpdir(), 'cli_out.csv')
    comp = out.replace('.csv', '_comp.csv')
    for f in (comp, out.replace('.csv', '_isle.csv')):
        if os.path.exists(f):
            os.remove(f)
    root = logging.getLogger()
    handlers, level = list(root.handlers), root.level
    sink = io.StringIO()
    try:
        with contextlib.redirect_stdout(sink), contextlib.redirect_stderr(sink), np.errstate(all='ignore'), \
                warnings.catch_warnings():
            warnings.simplefilter('ignore')
            rc = aegean.main([image, '--region', mimpath, '--table', out, '--forcerms', '1', '--forcebkg', '0',
                              '--cores', '1', '--seedclip', repr(seed), '--floodclip', repr(flood),
                              '--negative'])     # the CLI drops negative sources unless asked
    finally:
        root.handlers[:] = handlers
        root.setLevel(level)
    if rc not in (0, None):
        raise RuntimeError(f"aegean main returned {rc}: {sink.getvalue()[-300:]}")
    rows = []
    if os.path.exists(comp):
        with open(comp) as fh:
            for r in csv.DictReader(fh):
                rows.append(tuple(common.f2h(float(r[k])) for k in CSV_COLS) + (int(r['flags']),))
    return sorted(rows)


def finder_region_one(ctx, c):
    """one image + one region, through the public entry points, every route compared with the filtered
    unrestricted run: routes 'object' (mask=Region), 'file' (mask=<the one working .mim path>, rewritten
    with this case's region), 'pathlib' / 'bytes' (the same path as pathlib.Path / bytes), 'cli' (aegean main --region <same path> --table)"""
    from astropy.io import fits
    from astropy.wcs import WCS
    im, bkg, rms, flood, seed, _ = base.arrays(c)
    routes = c.get('routes') or (['file'] if c.get('as_file') else ['object'])
    hdu = fits.PrimaryHDU(im.astype(np.float64))
    for k, v in dict(base.HDR, **(c.get('hdr') or {})).items():
        hdu.header[k] = v
    path = os.path.join(ctx.tmpdir(), f"finder_{base.case_key(c)}.fits")
    hdu.writeto(path, overwrite=True)
    hist = bool(c.get('region_history'))
    try:
        reg = make_region(c['region'])          # a FRESH object, used for the oracle only
        reg.sky_within(np.array([c['region'].get('ra', 0.0)]), np.array([c['region'].get('dec', 0.0)]), degin=True)
    except Exception as e:
        ctx.fail('spec', dict(c, pretty=base.pretty(c)),
                 f"building / querying the region (maxdepth {c['region']['depth']}) raised {type(e).__name__}: {e}",
                 dict(site='Region.sky_within', clause='raises', region=True, depth=c['region']['depth']))
        ctx.count('finder-region-run')
        return True
    with warnings.catch_warnings():
        warnings.simplefilter('ignore')
        w = WCS(hdu.header, naxis=2)

    class _W(object):
        wcs = w
    try:
        ins, stable = oracle_inside(_W, reg, im.shape[0], im.shape[1])
    except Exception as e:
        ctx.fail('spec', dict(c, pretty=base.pretty(c)),
                 f"Region.sky_within raised {type(e).__name__}: {e} on the pixel centres of the image (region maxdepth {c['region']['depth']})",
                 dict(site='Region.sky_within', clause='raises', region=True, depth=c['region']['depth']))
        ctx.count('finder-region-run')
        return True
    if not stable:
        ctx.count('ambiguous-skipped')
        return
    if c['region']['shape'] != 'poly':
        ra, dec = _history['last_sky']
        lo, hi = geometric_bounds(c['region'], ra, dec)
        if (lo & ~ins).any() or (ins & ~hi).any():
            miss, extra = int((lo & ~ins).sum()), int((ins & ~hi).sum())
            ctx.fail('spec', dict(c, pretty=base.pretty(c)),
                     f"Region (maxdepth {c['region']['depth']}, circles + {[o for o, _ in spec_ops(c['region'])]}) disagrees with "
                     f"spherical geometry on the image's pixel centres: {miss} centres certainly inside are reported outside, "
                     f"{extra} certainly outside are reported inside (of {ins.size}); islands there would be lost / kept wrongly",
                     dict(site='Region.sky_within', clause='region-membership-geometry', region=True,
                          depth=c['region']['depth'], interior_lost=miss > 0))
            ctx.count('finder-region-run')
            return True
    allw, _ = base.oracle(im, bkg, rms, flood, seed, None)
    want = [wd for wd in allw if any(ins[p] for p in wd[1])]
    want_set = {(wd[0], len(wd[1])) for wd in want}
    # replaying a recorded failure: first re-create the history (the working file held another region before)
    if ctx.replay and c.get('prev_file_region') and _history['last_file_region'] is None:
        try:
            base.finder_sources(path, flood, seed, mask=write_workfile(ctx, c['prev_file_region']))
        except Exception:
            pass
    try:
        comps0, isles0 = base.finder_sources(path, flood, seed)
    except Exception as e:
        ctx.fail('spec', dict(c, pretty=base.pretty(c)), f"find_sources_in_image raised {type(e).__name__}: {e}",
                 dict(site='find_sources_in_image', clause='raises', region=False))
        return
    keep0 = {k for k, v in isles0.items() if v in want_set}
    exp = sorted(base.comp_tuple(s) + (isles0[int(s.island)],) for s in comps0 if int(s.island) in keep0)
    exp_rows = sorted(base.comp_tuple(s) for s in comps0 if int(s.island) in keep0)
    ncomp = 0
    for route in routes:
        prev = _history['last_file_region']
        case = dict(c, routes=[route], prev_file_region=prev if route != 'object' else None)
        bad = None
        try:
            if route == 'cli':
                got_rows = cli_components(ctx, path, write_workfile(ctx, c['region'], hist), flood, seed)
                ncomp = len(got_rows)
                if got_rows != exp_rows:
                    bad = (f"aegean --region {WORKFILE} --table: {len(got_rows)} components, not the {len(exp_rows)} components "
                           f"(identical values) of the islands of the unrestricted run with an own pixel inside the region")
            else:
                # the mask is a separate object with exactly the history we give it (never the oracle's object)
                if route == 'object':
                    mask_arg = make_region(c['region'], hist)
                else:
                    mask_arg = write_workfile(ctx, c['region'], hist)      # 'file': the path as a str
                    if route == 'pathlib':                                # the same file named by an os.PathLike object
                        import pathlib
                        mask_arg = pathlib.Path(mask_arg)
                    elif route == 'bytes':                                # … or by a bytes path
                        mask_arg = os.fsencode(mask_arg)
                comps1, isles1 = base.finder_sources(path, flood, seed, mask=mask_arg)
                ncomp = len(comps1)
                got_set = set(isles1.values())
                # the property's words: "the components of those islands of the UNRESTRICTED RUN that have …": an island of
                # find_islands that yields no source in the unrestricted run (summit rules) is not expected here either
                exp_set = want_set & set(isles0.values())
                if got_set != exp_set:
                    bad = (f"islands of the restricted run {sorted(got_set)} != islands of the unrestricted run with an own "
                           f"pixel inside the region {sorted(exp_set)}")
                else:
                    got = sorted(base.comp_tuple(s) + (isles1[int(s.island)],) for s in comps1 if int(s.island) in isles1)
                    if len(got) != len(comps1):
                        bad = "components of the restricted run refer to unreported islands"
                    elif exp != got:
                        bad = (f"components of the restricted run ({len(got)}) are not the components (identical values) of "
                               f"the kept islands of the unrestricted run ({len(exp)})")
        except Exception as e:
            ctx.fail('spec', dict(case, pretty=base.pretty(c)), f"route {route}: raised {type(e).__name__}: {e}",
                     dict(site='find_sources_in_image', clause='raises', region=True, route=route))
            continue
        if bad:
            if route != 'object' and prev is not None and prev != c['region']:
                bad += (f"; the working file {WORKFILE} held a different region in the previous run of this process "
                        f"(the result must depend on the file's current content only)")
            sig = dict(site='find_sources_in_image', clause='restricted-eq-filter', region=True, route=route)
            if hist:
                # same region, object never queried while it was built: if that one is right, the answer depends on history
                try:
                    c2, i2 = base.finder_sources(path, flood, seed, mask=make_region(c['region'], False))
                    if set(i2.values()) == (want_set & set(isles0.values())):
                        sig['what'] = 'history-dependence'
                        bad += ("; a Region object built by the same edits but never queried in between gives the right answer "
                                "(the result depends on earlier sky_within queries: history-dependence)")
                except Exception:
                    pass
            ctx.fail('spec', dict(case, pretty=base.pretty(c)), f"route {route}: " + bad, sig)
        ctx.count('finder-region-run')
        ctx.count('finder-region:' + c['region']['shape'] + ('+history' if hist else '') + '-' + route)
        ctx.count('finder-depth:%d' % c['region']['depth'])
    ctx.count('finder-components', ncomp)
    H, W = im.shape
    perimeter_inside = bool(ins[0, :].all() and ins[-1, :].all() and ins[:, 0].all() and ins[:, -1].all())
    if perimeter_inside and len(want) < len(allw):
        ctx.count('finder-perimeter-inside-but-island-dropped')
    nt = 0 < len(want) < len(allw) and (any(not all(ins[p] for p in wd[1]) for wd in want) or perimeter_inside)
    ctx.case(dict(kind='finder', H=c['H'], W=c['W'], islands=len(isles0), kept=len(want), routes=routes),
             nontrivial_key=('finder', base.case_key(c)) if nt else None)
    return True


def routes_for(ctx, k):
    """every case goes through the working file (so consecutive cases rewrite the same path with different
    discs / holes / depths) interleaved with Region-object runs of the same region; thorough adds the CLI"""
    r = ['file', 'object'] if k % 2 == 0 else ['object', 'file']
    if k % 3 == 1:
        r.append('pathlib')         # type variants of the file-name argument
    if k % 4 == 2:
        r.append('bytes')
    if not ctx.quick and k % 3 == 0:
        r.append('cli')
    return r


def finder_hole_runs(ctx, rng, n):
    """regions that contain the whole image perimeter but not all of the image: a big circle from which
    small circles around sources were removed with Region.without; islands inside a hole must go"""
    from astropy.wcs import WCS
    from astropy.io import fits
    h = fits.Header()
    for k, v in base.HDR.items():
        h[k] = v
    with warnings.catch_warnings():
        warnings.simplefilter('ignore')
        w = WCS(h, naxis=2)
    done = tries = 0
    while done < n and tries < 4 * n:
        tries += 1
        depth = int(rng.choice([11, 12]))
        H, W = int(rng.integers(28, 37)), int(rng.integers(28, 37))
        yy, xx = np.mgrid[0:H, 0:W]
        im = np.zeros((H, W))
        # compact sources well away from the border; the first one (or two) get a hole
        pos = []
        nsrc = int(rng.integers(2, 5))
        nh = 1 if (nsrc < 3 or rng.random() < 0.6) else 2
        for j in range(nsrc):
            m = 12 if j < nh else 4          # sources that get a hole stay clear of the image border
            for _t in range(20):
                r0, c0 = rng.uniform(m, H - 1 - m), rng.uniform(m, W - 1 - m)
                if all((r0 - a) ** 2 + (c0 - b) ** 2 > 64 for a, b in pos):
                    pos.append((r0, c0))
                    break
        for (r0, c0) in pos:
            amp = float(rng.choice([12.0, 16.0, 20.0])) * (1 if rng.random() < 0.8 else -1)
            sg = rng.uniform(0.7, 0.9)
            im += amp * np.exp(-0.5 * (((yy - r0) / sg) ** 2 + ((xx - c0) / sg) ** 2))
        nh = min(nh, len(pos))
        holes = []
        for (r0, c0) in pos[:nh]:
            ra, dec = w.wcs_pix2world([[c0, r0]], 0)[0]
            holes.append(dict(ra=float(ra), dec=float(dec), radius=float(0.01 * (rng.uniform(4.5, 6.0) if depth == 12 else rng.uniform(6.0, 7.5)))))
        rac, decc = w.wcs_pix2world([[W / 2.0, H / 2.0]], 0)[0]
        spec = dict(shape='circle-hole', ra=float(rac), dec=float(decc), radius=float(rng.uniform(0.6, 1.2)),
                    depth=depth, holes=holes)
        c = base.mk_case('finder', im, np.zeros_like(im), np.ones_like(im), 4.0, 5.0,
                         extra=dict(finder=True, region=spec, routes=routes_for(ctx, done)))
        if finder_region_one(ctx, c):
            done += 1


QUADS = [(40.0, -60.0), (130.0, 20.0), (220.0, -20.0), (310.0, 60.0), (75.0, -35.0), (170.0, 50.0), (255.0, -75.0), (350.0, 5.0)]


def wcs_for(hdr_over):
    from astropy.wcs import WCS
    from astropy.io import fits
    h = fits.Header()
    for k, v in dict(base.HDR, **(hdr_over or {})).items():
        h[k] = v
    with warnings.catch_warnings():
        warnings.simplefilter('ignore')
        return WCS(h, naxis=2)


def finder_edit_runs(ctx, rng, n, deep):
    """Region objects with a HISTORY (query -> set-operation edit -> query -> used as mask) and, for deep=True,
    regions at maxdepth 13-15 in all four RA quadrants and both hemispheres (circles added with add_circles)"""
    for k in range(n):
        over = None
        if deep:
            ra0, dec0 = QUADS[(k + ctx.seed) % len(QUADS)]
            over = dict(CRVAL1=ra0 + float(rng.uniform(-5, 5)), CRVAL2=dec0 + float(rng.uniform(-3, 3)))
        w = wcs_for(over)
        im = base.blob_image(rng, nblob=int(rng.integers(3, 7)))
        H, W = im.shape

        def sky(r, q):
            a, d = w.wcs_pix2world([[q, r]], 0)[0]
            return float(a), float(d)
        depth = int([14, 15, 14, 13, 15, 14][(k + ctx.seed) % 6]) if deep else int(rng.choice([11, 12, 13]))
        ra0, dec0 = sky(rng.uniform(0, H - 1), rng.uniform(0, W - 1))
        spec = dict(shape='circle-ops', ra=ra0, dec=dec0, radius=float(0.01 * rng.uniform(6, 16)), depth=depth, ops=[])
        nops = int(rng.integers(1, 3)) if not deep else int(rng.integers(0, 2))
        isl, _ = base.oracle(im, np.zeros_like(im), np.ones_like(im), 4.0, 5.0, None)
        for _ in range(nops):
            if isl and rng.random() < 0.6:          # aim the edit at a source
                pr, pq = isl[rng.integers(0, len(isl))][1][0]
                a, d = sky(pr + rng.uniform(-2, 2), pq + rng.uniform(-2, 2))
            else:
                a, d = sky(rng.uniform(0, H - 1), rng.uniform(0, W - 1))
            spec['ops'].append(dict(op=str(rng.choice(['without', 'without', 'intersect', 'symdiff', 'union'])),
                                    ra=a, dec=d, radius=float(0.01 * rng.uniform(4, 12))))
        if not deep and k % 2 == 0:
            # round 9: the LAST edit is a union with a finer, fully demoted region without renormalisation
            if isl:
                pr, pq = isl[rng.integers(0, len(isl))][1][0]
                a, d = sky(pr + rng.uniform(-2, 2), pq + rng.uniform(-2, 2))
            else:
                a, d = sky(rng.uniform(0, H - 1), rng.uniform(0, W - 1))
            spec['ops'].append(dict(op='union_deeper', extra=int(rng.choice([1, 2])), ra=a, dec=d,
                                    radius=float(0.01 * rng.uniform(4, 12))))
            nops += 1
        c = base.mk_case('finder', im, np.zeros_like(im), np.ones_like(im), 4.0, 5.0,
                         extra=dict(finder=True, region=spec, hdr=over, region_history=bool(nops) and (not deep or k % 2 == 0),
                                    routes=routes_for(ctx, k)))
        finder_region_one(ctx, c)


def finder_region_runs(ctx, rng, n):
    from astropy.wcs import WCS
    from astropy.io import fits
    h = fits.Header()
    for k, v in base.HDR.items():
        h[k] = v
    with warnings.catch_warnings():
        warnings.simplefilter('ignore')
        w = WCS(h, naxis=2)
    for _k in range(n):
        im = base.blob_image(rng, nblob=int(rng.integers(3, 7)))
        H, W = im.shape
        r0, c0 = rng.uniform(0, H - 1), rng.uniform(0, W - 1)
        ra0, dec0 = w.wcs_pix2world([[c0, r0]], 0)[0]
        spec = dict(shape='circle', ra=float(ra0), dec=float(dec0), radius=float(0.01 * rng.uniform(2, 12)),
                    depth=int(rng.choice([10, 11, 12])))
        c = base.mk_case('finder', im, np.zeros_like(im), np.ones_like(im), 4.0, 5.0,
                         extra=dict(finder=True, region=spec, routes=routes_for(ctx, _k + 1)))
        finder_region_one(ctx, c)
