"""
C13 — Sign symmetry and polarity filters of the source finder: run-pair correspondence + Spec checks.

run(ctx)
  0. translator validation: Gen.C13.gauss (Float) vs fitting.elliptical_gaussian  (mismatch = broken check)
  1. corpus: the open known finding (a +1.0 and a -0.8 source blended into one island) is run as a
     witness; the polarity filter is run at the point excluded by `polarity_partition` (NaN / 0 peak
     flux, injected through a stubbed _fit_island) and what the real filter does is recorded.
  2. image cases (mixed-sign isolated sources, same-sign blends with max_summits in {None, 1, 2}, sources against the image
     border, blank (NaN) pixels touching the extreme pixel of sources of both signs — isolated NaN neighbours, blanked
     blocks, blanked edge strips — correlated reproducible noise; rms/bkg forced (floats) or file-supplied (maps)):
       Spec (kind 'spec'), on the real output only
         * catalogue(-im, -bkg) == catalogue(im, bkg) with peak/int flux negated and position, shape,
           errors, flags unchanged (TOL relative; worst deviation recorded), island by island;
           a difference on an island holding pixels of both signs carries mixed_sign_island=True
           (the open known finding), on a single-sign island mixed_sign_island=False (a VIOLATION);
         * the four (nopositive, nonegative) settings: positive-only / negative-only are of the
           requested sign, disjoint, and their union is the both-polarities catalogue; no peak flux
           is NaN or 0; (True, True) is empty;
         * find_islands(im, bkg, rms) and find_islands(-im, -bkg, rms) return the same islands;
         * history: ONE SourceFinder instance asked the four settings in several orders on the same image (same file
           names) answers each time what a fresh finder answers, and its answers satisfy the partition clause
           (what='history-dependence' otherwise);
         * outfile: every polarity run also writes the text catalogue through outfile= (the CLI's --out); the written
           catalogue must be the returned one and obey the requested polarity, and passing outfile= must not change the
           returned catalogue; the command line (`aegean --out`, default / --negative / --negative --nopositive / --nopositive)
           is run on two corpus cases and its written catalogue judged the same way;
         * size threshold: extended sources whose island cut-out exceeds 1024 pixels with a compact source of the opposite
           sign in a corner of their bounding box (disjoint islands), both sign assignments, forced maps and file-supplied
           maps with a step;
         * debug slice: corpus + a sample re-run with the root, 'Aegean' and finder loggers at DEBUG must give bit-identical
           catalogues (what='logging-dependence' otherwise).
       Correspondence (kind 'corr'), real code vs the Lean model at Float
         * find_islands pixel sets vs `findIslands`;
         * for every island of both runs: the curvature map handed to estimate_lmfit_parinfo vs
           `islandCurve`; the lmfit Parameters it returned (isnegative-dependent amplitude, bounds,
           summit position and order, flags, vary switches) vs `estimate`;
         * the kept indices of the polarity filter vs `filterCat`.
  3. small islands: estimate_lmfit_parinfo called directly on random small islands (tiny, single-sign,
     mixed-sign, NaN holes, max_summits) and on their negatives: code vs model, and code vs
     negated code (single-sign must mirror; mixed-sign is the known finding).
search(ctx)  more image pairs, Spec only.      replay(ctx, rec)  re-runs one recorded case.
"""
import logging
import math
import os
import warnings

os.environ.setdefault('TQDM_DISABLE', '1')

import numpy as np

import common

LEVEL = 'proof'
LEANCHECKER = True
TOL = 1e-6          # the property's float class for the run pair (relative)
RULE = ("a case is one synthetic image (mixed-sign isolated Gaussian sources, optional same-sign blends, correlated "
        "noise from the case seed) x one rms/bkg mode (forced floats | file-supplied maps) on which the real "
        "find_sources_in_image is run on (im, bkg) and (-im, -bkg) and with all four (nopositive, nonegative) settings, "
        "or one small island handed directly to estimate_lmfit_parinfo together with its negative; non-trivial = the "
        "image yields components of both signs (>= 1 each) / the small island yields >= 1 component; distinct by "
        "(noise seed, mode, source list) / island contents")
ASSUMPTIONS = [
    "optimiser determinism under negation is SAMPLED, not proved: lmfit.minimize/MINPACK started from mirrored initial "
    "values, mirrored bounds and the mirrored objective (theorems estimate_negation_partial, residual_negation) is "
    "assumed to return mirrored parameters and the same covariance; every run pair checks it to TOL=1e-6 relative",
    "lmfit honours parameter bounds (so a fitted amplitude is never 0: amp_interval_excludes_zero)",
    "theorems are over the reals; IEEE negation is exact and rounding is sign-symmetric, the residual gap is measured "
    "(worst relative deviation of any compared field is recorded in the evidence)",
    "scipy.ndimage.label / find_objects / maximum_filter / minimum_filter behave as modelled (8- and 4-connected "
    "components numbered in raster order; 3x3 filters with reflect boundary); sampled by the correspondence",
    "NaN pixels are modelled in detection and in the curvature (scipy's rank filters as the ring algorithm of "
    "ni_filters.c, separable, reflect boundary: tied to scipy by the curvature correspondence); +-inf pixels are not generated",
    "exclusion bands of the run-pair comparison (false-alarm control, each counted in the histogram): (i) islands fitted "
    "with as many free parameters as pixels: the FITERR bit and err_* are not judged (zero residual up to round-off decides "
    "whether lmfit reports error bars); (ii) a deviation above TOL on an island whose initial parameters are exact mirror "
    "images is accepted only if rescaling the SAME-sign problem by 1 +- 2^-40 moves that island by >= 1/100 of the deviation "
    "(e.g. collinear 1-D islands, where the fit is chaotic); listed under roundoff_sensitive_islands",
]
TRUSTED = [
    "Gen.C13.gauss regenerated from fitting.elliptical_gaussian by py2lean.py (real mode), validated numerically each run",
    "Gen.C13.ampMinPos/ampMaxPos/ampMinNeg/ampMaxNeg (the four amplitude-bound expressions) and Gen.C13.summitArgPos/"
    "summitArgNeg (the thresholded quantities of the summit masks) sliced out of estimate_lmfit_parinfo by "
    "translator/targets/C13.py (which checks the branch structure: `amp > 0`, `isnegative`, the curvature tests, `< 0` / `> 0`) "
    "and translated by py2lean.py; validated numerically each run and, assembled by the hand-written glue ampBounds / "
    "summitMask, compared exactly with the real estimate_lmfit_parinfo on every island",
    "hand model Aegean/Model/C13.lean of find_islands (masks), _fit_island (curvature window), estimate_lmfit_parinfo "
    "and the polarity test, tied to the code by this sampled correspondence",
]
PARTIAL = [
    "isnegative_negation_partial / estimate_negation_partial / flags_negation_invariant_partial / fit_inputs_negation_partial: proved for islands whose "
    "pixels share one sign; for islands with pixels of both signs the statement is FALSE on the code "
    "(mixed_sign_not_symmetric; open known finding C13-mixed-sign-island)",
    "catalogue negation symmetry: detection, curvature, initial values, bounds, flags and the objective are proved "
    "sign-symmetric; the optimiser's output under negation is sampled (run pairs), not proved",
    "polarity_partition: proved under 'no peak flux is 0 or NaN'; discharged for fitted components by "
    "amp_interval_excludes_zero + lmfit's bound contract (assumed); at the excluded point the real filter keeps the "
    "source in every list (polarity_other_in_both; run with injected NaN/0 fluxes)",
]

FIELDS_SAME = ['ra', 'dec', 'a', 'b', 'pa', 'err_ra', 'err_dec', 'err_peak_flux', 'err_int_flux', 'err_a', 'err_b',
               'err_pa', 'local_rms', 'residual_std', 'psf_a', 'psf_b', 'psf_pa']
FIELDS_NEG = ['peak_flux', 'int_flux', 'background', 'residual_mean']
JUDGED_SAME = ['ra', 'dec', 'a', 'b', 'pa', 'err_ra', 'err_dec', 'err_peak_flux', 'err_int_flux', 'err_a', 'err_b', 'err_pa']
JUDGED_NEG = ['peak_flux', 'int_flux']

_quiet = logging.getLogger('verif-C13-quiet')
_quiet.addHandler(logging.NullHandler())
_quiet.setLevel(logging.CRITICAL + 1)
_quiet.propagate = False


_dbg = logging.getLogger('verif-C13-debug')
_dbg.addHandler(logging.NullHandler())
_dbg.setLevel(logging.DEBUG)
_dbg.propagate = False


class debug_logging:
    """root logger and the 'Aegean' logger at DEBUG (as `aegean --debug` or a host application would have them), output
    silenced, everything restored afterwards"""

    def __enter__(self):
        self.saved = []
        for name in (None, 'Aegean'):
            lg = logging.getLogger(name)
            self.saved.append((lg, lg.level, list(lg.handlers), lg.propagate))
            lg.handlers = [logging.NullHandler()]
            lg.setLevel(logging.DEBUG)
            if name:
                lg.propagate = False
        return self

    def __exit__(self, *a):
        for lg, level, handlers, prop in self.saved:
            lg.setLevel(level)
            lg.handlers = handlers
            lg.propagate = prop
        return False


class _NoBar:
    def __init__(self, *a, **k):
        pass

    def __enter__(self):
        return self

    def __exit__(self, *a):
        return False

    def update(self, *a, **k):
        pass


def _mods():
    common.use_repo()
    from AegeanTools import source_finder as sfm
    from AegeanTools import fitting
    sfm.tqdm = _NoBar
    return sfm, fitting


# ---------------------------------------------------------------- images ---------------------------------

PIX = 1.0 / 120.0       # degrees per pixel
BEAM = (3.2, 2.6, 20.0)  # FWHM major, minor (pixels), PA (deg) of the synthesised beam


def header(n):
    from astropy.io import fits
    h = fits.Header()
    h['SIMPLE'] = True
    h['BITPIX'] = -64
    h['NAXIS'] = 2
    h['NAXIS1'] = n
    h['NAXIS2'] = n
    h['CTYPE1'] = 'RA---SIN'
    h['CTYPE2'] = 'DEC--SIN'
    h['CRVAL1'] = 150.0
    h['CRVAL2'] = -30.0
    h['CRPIX1'] = n / 2.0
    h['CRPIX2'] = n / 2.0
    h['CDELT1'] = -PIX
    h['CDELT2'] = PIX
    h['BMAJ'] = BEAM[0] * PIX
    h['BMIN'] = BEAM[1] * PIX
    h['BPA'] = BEAM[2]
    h['BUNIT'] = 'Jy/beam'
    return h


def write_fits(ctx, name, data):
    from astropy.io import fits
    p = os.path.join(ctx.tmpdir(), name)
    fits.PrimaryHDU(data=np.array(data, dtype=np.float64), header=header(data.shape[0])).writeto(p, overwrite=True)
    return p


def gen_sources(rng, n, allow_blend=True):
    """grid-placed isolated sources of both signs (+ optional same-sign close pairs)"""
    cell = 16
    cells = [(i, j) for i in range(n // cell) for j in range(n // cell)]
    rng.shuffle(cells)
    k = max(2, min(len(cells), rng.randint(4, 7)))
    srcs = []
    for t, (ci, cj) in enumerate(cells[:k]):
        x0 = ci * cell + cell / 2 + rng.uniform(-2.5, 2.5)
        y0 = cj * cell + cell / 2 + rng.uniform(-2.5, 2.5)
        if rng.random() < 0.3:
            # push a source of a border cell against the image border
            if ci == 0:
                x0 = rng.uniform(0.6, 3.0)
            elif ci == n // cell - 1:
                x0 = n - 1 - rng.uniform(0.6, 3.0)
            if cj == 0 and rng.random() < 0.5:
                y0 = rng.uniform(0.6, 3.0)
            elif cj == n // cell - 1 and rng.random() < 0.5:
                y0 = n - 1 - rng.uniform(0.6, 3.0)
        sign = 1.0 if t % 2 == 0 else -1.0
        if t >= 2 and rng.random() < 0.3:
            sign = rng.choice([1.0, -1.0])
        amp = sign * rng.choice([8.0, 12.0, 20.0, 35.0, 60.0]) * rng.uniform(0.9, 1.1)
        ext = rng.choice([1.0, 1.0, 1.25, 1.5])
        srcs.append([round(x0, 3), round(y0, 3), round(amp, 4), ext])
        if allow_blend and rng.random() < 0.3:
            # a same-sign neighbour 3.5-4.5 px away: one island, two summits, still single-sign
            ang = rng.uniform(0, 2 * math.pi)
            d = rng.uniform(3.5, 4.5)
            srcs.append([round(x0 + d * math.cos(ang), 3), round(y0 + d * math.sin(ang), 3),
                         round(amp * rng.uniform(0.6, 0.9), 4), 1.0])
        elif allow_blend and rng.random() < 0.08:
            # an opposite-sign neighbour: one island with pixels of both signs (the open known finding's territory)
            ang = rng.uniform(0, 2 * math.pi)
            d = rng.uniform(4.0, 5.0)
            srcs.append([round(x0 + d * math.cos(ang), 3), round(y0 + d * math.sin(ang), 3),
                         round(-amp * rng.uniform(0.6, 0.9), 4), 1.0])
    return srcs


def gen_blanks(rng, n, srcs):
    """blank (NaN) pixels touching the extreme pixel of some sources: an isolated NaN pixel among its 8 neighbours, a
    blanked block starting right next to it, or a blanked image corner / edge strip"""
    out = []
    for x0, y0, amp, ext in srcs:
        u = rng.random()
        px, py = int(round(x0)), int(round(y0))
        if u < 0.25:
            dx, dy = rng.choice([(-1, -1), (-1, 0), (-1, 1), (0, -1), (0, 1), (1, -1), (1, 0), (1, 1)])
            out.append([px + dx, px + dx + 1, py + dy, py + dy + 1])
        elif u < 0.5:
            side = rng.choice(['up', 'down', 'left', 'right'])
            a, b = rng.randint(2, 6), rng.randint(3, 9)
            if side == 'right':
                out.append([px - b // 2, px - b // 2 + b, py + 1, py + 1 + a])
            elif side == 'left':
                out.append([px - b // 2, px - b // 2 + b, py - a, py])
            elif side == 'down':
                out.append([px + 1, px + 1 + a, py - b // 2, py - b // 2 + b])
            else:
                out.append([px - a, px, py - b // 2, py - b // 2 + b])
    if rng.random() < 0.3:
        k = rng.randint(2, 6)
        out.append(rng.choice([[0, k, 0, n], [n - k, n, 0, n], [0, n, 0, k], [0, k + 3, 0, k + 3]]))
    return [[int(max(v, 0)) for v in b] for b in out]


def render(n, srcs, noise_seed, noise_level=1.0):
    """signal + unit-rms correlated noise (deterministic in noise_seed)"""
    from scipy.ndimage import gaussian_filter
    x, y = np.indices((n, n))
    cc = 1.0 / (2 * math.sqrt(2 * math.log(2)))
    sig = np.zeros((n, n))
    th = math.radians(BEAM[2])
    for x0, y0, amp, ext in srcs:
        sx, sy = BEAM[0] * cc * ext, BEAM[1] * cc * ext
        xr = (x - x0) * math.cos(th) + (y - y0) * math.sin(th)
        yr = (x - x0) * math.sin(th) - (y - y0) * math.cos(th)
        sig += amp * np.exp(-0.5 * (xr ** 2 / sx ** 2 + yr ** 2 / sy ** 2))
    if noise_level > 0:
        rs = np.random.RandomState(noise_seed)
        nz = gaussian_filter(rs.normal(0, 1, (n, n)), BEAM[1] * cc)
        nz /= nz.std()
    else:
        nz = np.zeros((n, n))
    return sig, nz


def build_case(case):
    """-> im, bkg, rms arrays (+ forced floats) for a case dict"""
    n = case['n']
    sig, nz = render(n, case['srcs'], case['noise_seed'], case.get('noise', 1.0))
    for r0, c0, blk in case.get('blocks', []):
        blk = np.array(blk, dtype=float)
        sig[r0:r0 + blk.shape[0], c0:c0 + blk.shape[1]] = blk
    x, y = np.indices((n, n))
    scale = case.get('scale', 1.0)
    if case['mode'] == 'forced':
        rms = np.full((n, n), scale)
        bkg = np.full((n, n), case.get('bkg', 0.25) * scale)
    elif case['mode'] == 'file-step':
        # maps with a step (mosaic tile boundary) through the middle of the image
        rms = scale * np.where(y < n // 2 + 3, 1.0, 1.3)
        bkg = scale * np.where(x < n // 2 - 2, 0.2, -0.15)
    else:
        rms = scale * (1.0 + 0.25 * (x + 0.5 * y) / n)
        bkg = scale * (0.4 * np.sin(x / n * 2.0) - 0.3 * y / n + 0.1)
    im = sig * scale + nz * rms * case.get('noise', 1.0) + bkg
    for r0, r1, c0, c1 in case.get('blanks', []):
        im[max(r0, 0):max(r1, 0), max(c0, 0):max(c1, 0)] = np.nan
    return im, bkg, rms


class Recorder:
    """wraps one SourceFinder: records, per island, what _fit_island was given and what
    estimate_lmfit_parinfo was given and returned"""

    def __init__(self, sf):
        self.sf = sf
        self.islands = {}      # isle_num -> dict(data, offsets)
        self.est = []          # dict(isle, data, rms, curve, inner, outer, offsets, max_summits, params)
        self._cur = None
        orig_fit = sf._fit_island
        orig_est = sf.estimate_lmfit_parinfo

        def fit(island_data):
            self._cur = island_data.isle_num
            self.islands[island_data.isle_num] = dict(data=np.array(island_data.i), offsets=tuple(int(o) for o in island_data.offsets))
            return orig_fit(island_data)

        def est(data, rmsimg, curve, beam, innerclip, outerclip=None, offsets=(0, 0), max_summits=None):
            params = orig_est(data, rmsimg, curve, beam, innerclip, outerclip, offsets=offsets, max_summits=max_summits)
            self.est.append(dict(isle=self._cur, data=np.array(data, dtype=float), rms=np.array(rmsimg, dtype=float),
                                 curve=np.array(curve, dtype=int), inner=float(innerclip),
                                 outer=float(innerclip if outerclip is None else outerclip),
                                 offsets=tuple(int(o) for o in offsets), max_summits=max_summits,
                                 samp=sampling_map(sf, data, np.array(curve, dtype=int), offsets),
                                 params=params_tuple(params)))
            return params

        sf._fit_island = fit
        sf.estimate_lmfit_parinfo = est


def sampling_map(sf, data, curve, offsets):
    """the amplitude allowance `sampling = max(1.05, 2**(2/b**2))` of estimate_lmfit_parinfo at every pixel that can be
    a summit's peak (local extrema; every finite pixel of a small island), from the psf helper exactly as the code asks
    for it: get_psf_pix2pix(yo + offsets[0], xo + offsets[1]).  NaN elsewhere (the model must not look there)."""
    data = np.asarray(data, dtype=float)
    h, w = data.shape
    out = np.full((h, w), np.nan)
    fin = np.isfinite(data)
    small = min(h, w) <= 2 or int(fin.sum()) <= 6
    for x in range(h):
        for y in range(w):
            if fin[x, y] and (small or curve[x, y] != 0):
                a, b, pa = sf.global_data.psfhelper.get_psf_pix2pix(y + offsets[0], x + offsets[1])
                if np.all(np.isfinite((a, b, pa))):
                    out[x, y] = max(1.05, 2.0 ** (2.0 / b ** 2))
    return out


def params_tuple(params):
    """the sign-relevant content of the lmfit Parameters, extracted at return time"""
    if params is None:
        return None
    out = []
    for i in range(int(params['components'].value)):
        p = 'c%d_' % i
        out.append(dict(amp=float(params[p + 'amp'].value), amp_min=float(params[p + 'amp'].min),
                        amp_max=float(params[p + 'amp'].max), xo=int(round(params[p + 'xo'].value)),
                        yo=int(round(params[p + 'yo'].value)), flags=int(params[p + 'flags'].value),
                        vary=bool(params[p + 'amp'].vary), psf_vary=bool(params[p + 'sx'].vary),
                        sx=float(params[p + 'sx'].value), sy=float(params[p + 'sy'].value),
                        theta=float(params[p + 'theta'].value),
                        sx_min=float(params[p + 'sx'].min), sx_max=float(params[p + 'sx'].max),
                        xo_min=float(params[p + 'xo'].min), xo_max=float(params[p + 'xo'].max)))
    return out


def run_finder(ctx, case, negate=False, nopositive=False, nonegative=False, record=False, tag='a', debug=False,
               outfile=False):
    sfm, _ = _mods()
    im, bkg, rms = build_case(case)
    if negate:
        im, bkg = -im, -bkg
    sf = sfm.SourceFinder(log=_dbg if debug else _quiet)
    rec = Recorder(sf) if record else None
    kw = dict(cores=1, innerclip=case.get('inner', 5), outerclip=case.get('outer', 4), nopositive=nopositive,
              nonegative=nonegative, max_summits=case.get('max_summits'), docov=case.get('docov', True))
    imf = write_fits(ctx, f'im_{tag}.fits', im)
    import contextlib
    outpath = os.path.join(ctx.tmpdir(), f'cat_{tag}.txt') if outfile else None
    if outfile:
        kw['outfile'] = open(outpath, 'w')
    with warnings.catch_warnings(), (debug_logging() if debug else contextlib.nullcontext()):
        warnings.simplefilter('ignore')
        if case['mode'] == 'forced':
            srcs = sf.find_sources_in_image(imf, rms=float(rms[0, 0]), bkg=float(bkg[0, 0]), **kw)
        else:
            srcs = sf.find_sources_in_image(imf, rmsin=write_fits(ctx, f'rms_{tag}.fits', rms),
                                            bkgin=write_fits(ctx, f'bkg_{tag}.fits', bkg), **kw)
    sf._written = None
    if outfile:
        kw['outfile'].close()
        sf._written = parse_outfile(outpath)
    return to_cat(srcs), rec, sf


def parse_outfile(path):
    """rows of the text catalogue written through outfile= (the CLI's --out): island, source, printed peak flux"""
    import re
    rows = []
    for line in open(path):
        m = re.match(r'^\((\d+),(\d+)\)\s+(.*)$', line)
        if not m:
            continue
        t = m.group(3).split()
        rows.append(dict(island=int(m.group(1)), source=int(m.group(2)), peak_text=t[8], peak_flux=float(t[8])))
    return rows


def check_written(ctx, case, which, setting, cat, written):
    """the catalogue written through outfile= is the returned catalogue (same components in the same order, printed peak
    within the 6 printed decimals) and obeys the polarity it was asked for"""
    np_, nn_ = setting
    ctx.count('outfile-catalogues-judged')
    sig = dict(what='polarity-partition', channel='outfile')
    c = dict(case, image=which, nopositive=np_, nonegative=nn_, outfile=True)
    if written is None:
        return True
    bad = [r for r in written if (np_ and r['peak_flux'] > 0) or (nn_ and (r['peak_flux'] < 0 or r['peak_text'].startswith('-')))]
    if bad:
        ctx.fail('spec', c, f"the catalogue written through outfile= for (nopositive, nonegative) = {setting} holds "
                 f"{len(bad)} components of the excluded sign, e.g. {(bad[0]['island'], bad[0]['source'])} with peak "
                 f"{bad[0]['peak_text']}; the returned list has {len(cat)} components, the file {len(written)}",
                 dict(sig, clause='requested-sign'))
        return False
    if [key(r) for r in written] != [key(r) for r in cat] or any(
            abs(r['peak_flux'] - k['peak_flux']) > 6e-7 for r, k in zip(written, cat)):
        ctx.fail('spec', c, f"the catalogue written through outfile= ({len(written)} rows: {[key(r) for r in written][:6]}) is not "
                 f"the returned catalogue ({len(cat)} components: {[key(r) for r in cat][:6]})", dict(sig, clause='written-equals-returned'))
        return False
    return True


def cli_case(ctx, case, fresh):
    """the command line: `aegean image --out file` with no polarity flag (positive only, the CLI default), `--negative`
    (both), `--negative --nopositive` (negative only) and `--nopositive` alone (nothing to find); the written catalogue is
    judged like the returned ones: it must be the fresh finder's catalogue for that setting and obey its polarity"""
    _mods()
    from AegeanTools.CLI import aegean as cli
    im, bkg, rms = build_case(case)
    imf = write_fits(ctx, 'im_cli.fits', im)
    base = [imf, '--cores', '1', '--seedclip', str(case.get('inner', 5)), '--floodclip', str(case.get('outer', 4))]
    if case.get('max_summits') is not None:
        base += ['--maxsummits', str(case['max_summits'])]
    if not case.get('docov', True):
        base += ['--nocov']
    if case['mode'] == 'forced':
        base += ['--forcerms', repr(float(rms[0, 0])), '--forcebkg', repr(float(bkg[0, 0]))]
    else:
        base += ['--noise', write_fits(ctx, 'rms_cli.fits', rms), '--background', write_fits(ctx, 'bkg_cli.fits', bkg)]
    ok = True
    root, aeg = logging.getLogger(), logging.getLogger('Aegean')
    saved = (list(root.handlers), root.level, list(aeg.handlers), aeg.level, aeg.propagate)
    err = np.geterr()
    try:
        root.handlers = [logging.NullHandler()]      # basicConfig then leaves the root logger alone
        for flags, setting in (([], (False, True)), (['--negative'], (False, False)),
                               (['--negative', '--nopositive'], (True, False)), (['--nopositive'], (True, True))):
            outpath = os.path.join(ctx.tmpdir(), 'cat_cli.txt')
            if os.path.exists(outpath):
                os.unlink(outpath)
            with warnings.catch_warnings():
                warnings.simplefilter('ignore')
                rc = cli.main(base + flags + ['--out', outpath])
            ctx.count('cli-runs')
            c = dict(case, cli=flags)
            if rc not in (0, None):
                ok = False
                ctx.fail('spec', c, f"aegean {' '.join(flags)} --out … returned {rc}", dict(what='cli', clause='exit-status'))
                continue
            written = parse_outfile(outpath) if os.path.exists(outpath) else []
            ok = check_written(ctx, c, 'cli', setting, [k for k in fresh[setting]], written) and ok
    finally:
        root.handlers, aeg.handlers = saved[0], saved[2]
        root.setLevel(saved[1])
        aeg.setLevel(saved[3])
        aeg.propagate = saved[4]
        np.seterr(**err)
    return ok


def to_cat(srcs):
    return [{f: float(getattr(s, f)) for f in FIELDS_SAME + FIELDS_NEG} |
            dict(island=int(s.island), source=int(s.source), flags=int(s.flags)) for s in srcs]


def same_catalogue(cat, want, rel=0.0):
    return [key(c) for c in cat] == [key(c) for c in want] and all(
        c['flags'] == w['flags'] and all(common.close(c[f], w[f], rel=rel) for f in FIELDS_SAME + FIELDS_NEG)
        for c, w in zip(cat, want))


def debug_slice(ctx, case, fresh, negate=False):
    """the same runs with the root logger, the 'Aegean' logger and the finder's own logger at DEBUG: results must be
    bit-identical to the default-level runs"""
    ok = True
    for (np_, nn_) in [(False, False), (True, False), (False, True)]:
        cat, _, _ = run_finder(ctx, case, negate=negate, nopositive=np_, nonegative=nn_, tag='d', debug=True)
        ctx.count('debug-slice-runs')
        if not same_catalogue(cat, fresh[(np_, nn_)]):
            ok = False
            want = fresh[(np_, nn_)]
            ctx.fail('spec', dict(case, image='negative' if negate else 'image', nopositive=np_, nonegative=nn_, debug=True),
                     f"with the loggers at DEBUG find_sources_in_image(nopositive={np_}, nonegative={nn_}) returns {len(cat)} "
                     f"components (peak fluxes {[round(c['peak_flux'], 3) for c in cat][:8]}), at the default level {len(want)} "
                     f"({[round(c['peak_flux'], 3) for c in want][:8]})",
                     dict(what='logging-dependence', site='SourceFinder.find_sources_in_image'))
            break
    return ok


# the orders in which the four (nopositive, nonegative) settings are asked of ONE SourceFinder instance
HISTORIES = [
    [(False, True), (True, False), (False, False), (True, True)],     # pos-only -> neg-only -> both -> none
    [(False, False), (False, True), (True, False)],                    # both -> pos-only -> neg-only
    [(True, False), (False, False), (False, True)],                    # neg-only -> both -> pos-only
    [(True, True), (False, False), (True, False), (False, True)],     # none -> both -> neg-only -> pos-only
    [(False, True), (False, False)],                                   # pos-only -> both
    [(True, False), (False, True), (False, False)],                    # neg-only -> pos-only -> both
]


def history_case(ctx, case, fresh, order, negate=False):
    """a long-lived process: ONE SourceFinder instance is asked for the same image (same file names, unchanged content)
    with the (nopositive, nonegative) settings in `order`; every answer must be the catalogue a fresh finder gives for that
    setting (`fresh[(np, nn)]`), and the answers must satisfy the partition clause among themselves.
    (A reused finder keeps its loaded image: load_globals returns early when an image is loaded — documented behaviour of
    the clean tree — so only the SAME image is ever handed to it here.)"""
    sfm, _ = _mods()
    im, bkg, rms = build_case(case)
    if negate:
        im, bkg = -im, -bkg
    sf = sfm.SourceFinder(log=_quiet)
    imf = write_fits(ctx, 'im_h.fits', im)
    if case['mode'] == 'forced':
        extra = dict(rms=float(rms[0, 0]), bkg=float(bkg[0, 0]))
    else:
        extra = dict(rmsin=write_fits(ctx, 'rms_h.fits', rms), bkgin=write_fits(ctx, 'bkg_h.fits', bkg))
    got = {}
    ok = True
    hist = []
    for np_, nn_ in order:
        outpath = os.path.join(ctx.tmpdir(), 'cat_h.txt')      # the same output file name rewritten by every call
        with warnings.catch_warnings(), open(outpath, 'w') as fh:
            warnings.simplefilter('ignore')
            srcs = sf.find_sources_in_image(imf, cores=1, innerclip=case.get('inner', 5), outerclip=case.get('outer', 4),
                                            nopositive=np_, nonegative=nn_, max_summits=case.get('max_summits'),
                                            docov=case.get('docov', True), outfile=fh, **extra)
        cat = to_cat(srcs)
        if not check_written(ctx, dict(case, history=hist + [[np_, nn_]]), 'negative' if negate else 'image', (np_, nn_), cat,
                             parse_outfile(outpath)):
            ok = False
            break
        hist.append([np_, nn_])
        got[(np_, nn_)] = cat
        want = fresh[(np_, nn_)]
        same = [key(c) for c in cat] == [key(c) for c in want] and all(
            c['flags'] == w['flags'] and all(common.close(c[f], w[f], rel=1e-12) for f in FIELDS_SAME + FIELDS_NEG)
            for c, w in zip(cat, want))
        ctx.count('history-calls-on-a-reused-finder')
        if not same:
            ok = False
            ctx.fail('spec', dict(case, history=hist, image='negative' if negate else 'image'),
                     f"a reused SourceFinder, asked (nopositive, nonegative) = {hist} in this order on the same image, returns "
                     f"{len(cat)} components for the last setting (peak fluxes {[round(c['peak_flux'], 3) for c in cat][:8]}); a fresh "
                     f"finder returns {len(want)} ({[round(c['peak_flux'], 3) for c in want][:8]})",
                     dict(what='history-dependence', site='SourceFinder.find_sources_in_image', option='nopositive/nonegative'))
            break
    if ok and all(k in got for k in [(False, False), (False, True), (True, False)]):
        ok = check_partition(ctx, dict(case, history=hist), got[(False, False)], got[(False, True)], got[(True, False)],
                             got.get((True, True), []), 'reused-finder')
    return ok


# ---------------------------------------------------------------- Spec checks ----------------------------

def reldev(a, b):
    if a != a and b != b:
        return 0.0
    if a != a or b != b or math.isinf(a) or math.isinf(b):
        return 0.0 if a == b else float('inf')
    return abs(a - b) / max(abs(a), abs(b), 1e-300) if a != b else 0.0


def field_dev(f, a, b, neg):
    """deviation of one field, in units of the tolerance class (relative; positions relative to the beam)"""
    va, vb = a[f], (-b[f] if neg else b[f])
    if f in ('ra', 'dec'):
        return abs(va - vb) / (BEAM[1] * PIX) if (va == va and vb == vb) else (0.0 if (va != va and vb != vb) else float('inf'))
    if f == 'pa' or f == 'psf_pa':
        d = abs(va - vb) % 180.0
        return min(d, 180.0 - d) / 180.0 if (va == va and vb == vb) else (0.0 if (va != va and vb != vb) else float('inf'))
    return reldev(va, vb)


def by_island(cat):
    d = {}
    for c in cat:
        d.setdefault(c['island'], []).append(c)
    return d


def mixed_sign(rec, isle):
    d = rec.islands.get(isle)
    if d is None:
        return None
    v = d['data'][np.isfinite(d['data'])]
    return bool((v > 0).any() and (v < 0).any())


def check_negation(ctx, case, cat_a, rec_a, cat_b, rec_b, stats, img_a=None):
    """catalogue(im,bkg) vs catalogue(-im,-bkg), island by island"""
    ok = True
    ia, ib = by_island(cat_a), by_island(cat_b)
    boxes_a = {k: v['offsets'] for k, v in rec_a.islands.items()}
    boxes_b = {k: v['offsets'] for k, v in rec_b.islands.items()}
    if boxes_a != boxes_b:
        ctx.fail('spec', case, f"islands differ between the image and its negative: {len(boxes_a)} vs {len(boxes_b)} "
                 f"islands; boxes only in one run: {sorted(set(boxes_a.values()) ^ set(boxes_b.values()))[:6]}",
                 dict(what='negation-asymmetry', site='find_islands', mixed_sign_island=False))
        return False
    for isle in sorted(set(ia) | set(ib)):
        la, lb = ia.get(isle, []), ib.get(isle, [])
        mixed = mixed_sign(rec_a, isle)
        bad = None
        worst = None
        dev_only = False
        # exclusion band: an island fitted with as many free parameters as pixels has zero residual up to round-off;
        # whether lmfit then reports error bars (FITERR, and with it every err_*) is decided by round-off alone
        zero_dof = dof(rec_a, isle) is not None and dof(rec_a, isle) <= 0
        if zero_dof:
            ctx.count('zero-dof-island (FITERR bit and err_* not judged)')
        fmask = ~2 if zero_dof else ~0
        fields = [f for f in JUDGED_SAME + JUDGED_NEG if not (zero_dof and f.startswith('err_'))]
        isl_dev = {}
        if len(la) != len(lb):
            bad = f"{len(la)} components in the image, {len(lb)} in its negative"
        else:
            for ca, cb in zip(la, lb):
                if ca['flags'] & fmask != cb['flags'] & fmask:
                    bad = f"component {ca['source']}: flags {ca['flags']} vs {cb['flags']}"
                    break
                for f in fields:
                    dv = field_dev(f, ca, cb, f in JUDGED_NEG)
                    isl_dev[f] = max(isl_dev.get(f, 0.0), dv)
                    if dv > TOL and (worst is None or dv > worst[1]):
                        worst = (f, dv, ca[f], cb[f])
                if worst and not bad:
                    dev_only = True
                    bad = (f"component {ca['source']}: {worst[0]} = {worst[2]!r} in the image, {worst[3]!r} in its negative "
                           f"(expected {'negated' if worst[0] in JUDGED_NEG else 'equal'}; deviation {worst[1]:.3g} > {TOL})")
                    break
        if bad and dev_only and est_mirrored(rec_a, rec_b, isle) and not mixed:
            # the initial values, bounds, flags handed to the optimiser are exact mirror images: is the difference the
            # optimiser amplifying round-off?  control: the same-sign problem perturbed at round-off level
            ctrl = control_deviation(ctx, case, isle, la)
            if ctrl is not None and ctrl * 100.0 >= worst[1]:
                ctx.count('roundoff-sensitive-island')
                stats.setdefault('roundoff_sensitive', []).append(
                    dict(noise_seed=case.get('noise_seed'), mode=case.get('mode'), island=isle, field=worst[0],
                         negation_deviation=num(worst[1]), control_deviation=num(ctrl)))
                bad = None
                isl_dev = {}
        if not bad and not mixed:
            # worst deviation over the islands that were judged and accepted at TOL
            for f, dv in isl_dev.items():
                stats['worst'] = max(stats['worst'], dv)
                stats['worst_by_field'][f] = max(stats['worst_by_field'].get(f, 0.0), dv)
        if bad:
            ok = False
            pa = [round(c['peak_flux'], 4) for c in la]
            pb = [round(-c['peak_flux'], 4) for c in lb]
            flat = has_flat_pixel(img_a, boxes_a.get(isle))
            ctx.fail('spec', dict(case, island=isle),
                     f"island {isle} (box {boxes_a.get(isle)}; pixels of both signs: {mixed}; holds a pixel whose 3x3 "
                     f"neighbourhood is constant: {flat}): {bad}; peak fluxes "
                     f"{pa} vs {pb} (negative run, original sign convention)",
                     dict(what='negation-asymmetry', mixed_sign_island=bool(mixed), flat_pixel=bool(flat)))
            ctx.count('asymmetric-island-mixed' if mixed else 'asymmetric-island-single-sign')
        else:
            ctx.count('symmetric-island-mixed' if mixed else 'symmetric-island')
    return ok


def num(x):
    """JSON-safe rendering of a deviation"""
    return 'inf' if x == float('inf') else float('%.3g' % x)


def dof(rec, isle):
    """pixels minus free parameters of the island's fit (None if unknown)"""
    e = [e for e in rec.est if e['isle'] == isle]
    if len(e) != 1 or e[0]['params'] is None:
        return None
    free = sum((3 if c['vary'] else 0) + (3 if c['psf_vary'] else 0) for c in e[0]['params'])
    return int(np.isfinite(e[0]['data']).sum()) - free


def est_mirrored(rec_a, rec_b, isle):
    """did estimate_lmfit_parinfo return exact mirror images for this island in the two runs?"""
    ea = [e for e in rec_a.est if e['isle'] == isle]
    eb = [e for e in rec_b.est if e['isle'] == isle]
    if len(ea) != 1 or len(eb) != 1 or ea[0]['params'] is None or eb[0]['params'] is None:
        return False
    b = [dict(c, amp=-c['amp'], amp_min=-c['amp_max'], amp_max=-c['amp_min']) for c in eb[0]['params']]
    return comps_equal(ea[0]['params'], b, rel=0.0) and all(
        x[f] == y[f] for x, y in zip(ea[0]['params'], b) for f in ('sx', 'sy', 'theta', 'sx_min', 'sx_max', 'xo_min', 'xo_max'))


def control_deviation(ctx, case, isle, la):
    """worst deviation of the island's components when the SAME-sign problem is rescaled by (1 +- 2^-40): a
    perturbation at round-off level that leaves every decision of the finder unchanged"""
    if case.get('kind') != 'image':
        return None
    out = 0.0
    for eps in (2.0 ** -40, -2.0 ** -40):
        c2 = dict(case, scale=case.get('scale', 1.0) * (1.0 + eps))
        cat, _, _ = run_finder(ctx, c2, tag='c')
        lc = by_island(cat).get(isle, [])
        if len(lc) != len(la):
            return float('inf')
        for ca, cc in zip(la, lc):
            cc = dict(cc)
            for f in ('peak_flux', 'int_flux', 'err_peak_flux', 'err_int_flux'):
                cc[f] = cc[f] / (1.0 + eps)
            for f in JUDGED_SAME + JUDGED_NEG:
                out = max(out, field_dev(f, ca, cc, False))
    return out


def has_flat_pixel(img, box):
    """does the island box hold a pixel that is both a 3x3 maximum and a 3x3 minimum?"""
    if img is None or box is None:
        return False
    from scipy.ndimage import maximum_filter, minimum_filter
    xmin, xmax, ymin, ymax = box
    r0, c0 = max(xmin - 1, 0), max(ymin - 1, 0)
    w = np.array(img[r0:xmax + 1, c0:ymax + 1], dtype=float)
    both = (maximum_filter(w, size=3) == w) & (minimum_filter(w, size=3) == w)
    return bool(both[xmin - r0:xmax - r0, ymin - c0:ymax - c0].any())


def key(c):
    return (c['island'], c['source'])


def check_partition(ctx, case, both, pos, neg, none, which):
    """the four (nopositive, nonegative) catalogues of one image"""
    ok = True
    sig = dict(what='polarity-partition')

    def fail(msg, **extra):
        nonlocal ok
        ok = False
        ctx.fail('spec', dict(case, image=which), msg, dict(sig, **extra))

    for c in both:
        pf = c['peak_flux']
        if pf != pf or pf == 0:
            fail(f"component {key(c)} has peak_flux {pf!r}: neither positive nor negative, the filter keeps it in "
                 f"every list", flux_class='nan' if pf != pf else 'zero')
    kb, kp, kn = [key(c) for c in both], [key(c) for c in pos], [key(c) for c in neg]
    byk = {key(c): c for c in both}
    for c in pos:
        if not c['peak_flux'] > 0:
            fail(f"positive-only catalogue holds {key(c)} with peak_flux {c['peak_flux']!r}", clause='requested-sign')
    for c in neg:
        if not c['peak_flux'] < 0:
            fail(f"negative-only catalogue holds {key(c)} with peak_flux {c['peak_flux']!r}", clause='requested-sign')
    if set(kp) & set(kn):
        fail(f"positive-only and negative-only catalogues share {sorted(set(kp) & set(kn))[:5]}", clause='disjoint')
    if sorted(kp + kn) != sorted(kb):
        fail(f"union of the single-polarity catalogues ({len(kp)}+{len(kn)}) is not the both-polarities catalogue "
             f"({len(kb)}): missing {sorted(set(kb) - set(kp) - set(kn))[:5]}, extra {sorted((set(kp) | set(kn)) - set(kb))[:5]}",
             clause='union')
    else:
        for c in pos + neg:
            o = byk[key(c)]
            if any(not common.close(c[f], o[f], rel=1e-12) for f in FIELDS_SAME + FIELDS_NEG) or c['flags'] != o['flags']:
                fail(f"component {key(c)} differs between the filtered and the unfiltered catalogue", clause='union')
                break
    if none:
        fail(f"(nopositive, nonegative) = (True, True) returned {len(none)} components", clause='none')
    return ok


# ---------------------------------------------------------------- correspondence -------------------------

def fl(a):
    return " ".join(common.f2h(v) for v in np.asarray(a, dtype=float).ravel())


def corr_islands(ctx, case, im, bkg, rms, lines, todo):
    sfm, _ = _mods()
    inner, outer = float(case.get('inner', 5)), float(case.get('outer', 4))

    def impl(i, b):
        isl = sfm.find_islands(im=np.array(i), bkg=np.array(b), rms=np.array(rms), seed_clip=inner, flood_clip=outer,
                               log=_quiet)
        out = []
        for I in isl:
            (x0, x1), (y0, y1) = I.bounding_box
            m = ~np.array(I.mask, dtype=bool)
            xs, ys = np.where(m)
            out.append(tuple(sorted(int((x + x0) * im.shape[1] + (y + y0)) for x, y in zip(xs, ys))))
        return sorted(out)
    with warnings.catch_warnings():
        warnings.simplefilter('ignore')
        a, b = impl(im, bkg), impl(-im, -bkg)
    if a != b:
        ctx.fail('spec', case, f"find_islands(im,bkg) returns {len(a)} islands, find_islands(-im,-bkg) {len(b)}; "
                 f"first difference {sorted(set(a) ^ set(b))[:1]}",
                 dict(what='negation-asymmetry', site='find_islands', mixed_sign_island=False))
    H, W = im.shape
    lines.append(f"islands {H} {W} {common.f2h(inner)} {common.f2h(outer)} {fl(im)} {fl(bkg)} {fl(rms)}")
    todo.append(('islands', case, a))
    lines.append(f"islands {H} {W} {common.f2h(inner)} {common.f2h(outer)} {fl(-im)} {fl(-bkg)} {fl(rms)}")
    todo.append(('islands', dict(case, negated=True), b))


def judge_islands(ctx, case, impl, line):
    comps = [c.split() for c in line.split('|')] if line.strip() else []
    own = sorted(tuple(int(t) for t in c[2:]) for c in comps if c[0] == '1')
    box = sorted(tuple(int(t) for t in c[2:]) for c in comps if c[1] == '1')
    ctx.count('islands-compared', len(impl))
    if impl == own:
        return
    if impl == box:
        # the pinned seed test looks at the whole bounding box (C02's finding, repaired by C02's patch): not C13's
        ctx.count('islands-match-box-seed-variant')
        return
    ctx.fail('corr', case, f"find_islands returns {len(impl)} islands, the model {len(own)} (box-seed variant {len(box)})",
             dict(what='islands-model'))


ctx_count_blank = [0]


def est_lines(e, img, lines, todo, case):
    """driver lines for one recorded estimate call"""
    h, w = e['data'].shape
    xmin, ymin = e['offsets']
    xmax, ymax = xmin + h, ymin + w
    H, W = img.shape
    r0, c0 = max(xmin - 1, 0), max(ymin - 1, 0)
    r1, c1 = min(xmax + 1, H), min(ymax + 1, W)
    sub = img[r0:r1, c0:c1]
    if np.isnan(sub).any():
        ctx_count_blank[0] += 1
    lines.append(f"curve {H} {W} {xmin} {xmax} {ymin} {ymax} {r0} {c0} {sub.shape[0]} {sub.shape[1]} {fl(sub)}")
    todo.append(('curve', case, e))
    est_only(e, lines, todo, case)


def est_only(e, lines, todo, case):
    h, w = e['data'].shape
    ms = -1 if e['max_summits'] is None else int(e['max_summits'])
    lines.append(f"est {h} {w} {common.f2h(e['inner'])} {common.f2h(e['outer'])} {ms} {fl(e['data'])} {fl(e['rms'])} {fl(e['samp'])} "
                 + " ".join(str(int(v)) for v in e['curve'].ravel()))
    todo.append(('est', case, e))


def parse_est(line):
    w = line.split(' ', 1)
    neg = w[0] == 'neg=1'
    if w[1].strip() == 'none':
        return neg, None
    if not w[1].strip():
        return neg, []
    out = []
    for c in w[1].split(';'):
        t = c.split()
        out.append(dict(amp=common.h2f(t[0]), amp_min=common.h2f(t[1]), amp_max=common.h2f(t[2]), xo=int(t[3]), yo=int(t[4]),
                        flags=int(t[5]), vary=t[6] == '1', psf_vary=t[7] == '1'))
    return neg, out


def comps_equal(a, b, rel=1e-12):
    if a is None or b is None:
        return a is None and b is None
    if len(a) != len(b):
        return False
    for x, y in zip(a, b):
        if (x['xo'], x['yo'], x['flags'], x['vary'], x['psf_vary']) != (y['xo'], y['yo'], y['flags'], y['vary'], y['psf_vary']):
            return False
        if not all(common.close(x[f], y[f], rel=rel) for f in ('amp', 'amp_min', 'amp_max')):
            return False
    return True


def short(cs):
    if cs is None:
        return None
    return [(round(c['amp'], 5), round(c['amp_min'], 5), round(c['amp_max'], 5), c['xo'], c['yo'], c['flags'],
             int(c['vary']), int(c['psf_vary'])) for c in cs]


def judge(ctx, todo, outs):
    for (kind, case, obj), line in zip(todo, outs):
        if line.startswith('bad-op'):
            raise common.LeanError(f"driver rejected a {kind} request")
        if kind == 'islands':
            judge_islands(ctx, case, obj, line)
        elif kind == 'curve':
            got = [int(t) for t in line.split()]
            want = [int(v) for v in obj['curve'].ravel()]
            ctx.count('curvature-maps-compared')
            if got != want:
                ctx.fail('corr', dict(case, island=obj.get('isle')), f"curvature map handed to estimate_lmfit_parinfo "
                         f"{want} differs from the model's islandCurve {got} (box offsets {obj['offsets']}, shape {obj['data'].shape})",
                         dict(what='curvature-model'))
        elif kind == 'est':
            neg, comps = parse_est(line)
            ctx.count('estimates-compared')
            v = obj['data'][np.isfinite(obj['data'])]
            code_neg = bool(np.nanmax(v) < 0) if v.size else None
            if comps is not None:
                ctx.count('isnegative' if neg else 'ispositive')
            if code_neg is not None and code_neg != neg or not comps_equal(obj['params'], comps):
                ctx.fail('corr', dict(case, island=obj.get('isle')),
                         f"estimate_lmfit_parinfo returned {short(obj['params'])} (isnegative={code_neg}), the model "
                         f"{short(comps)} (isnegative={neg}); island data {np.round(obj['data'], 4).tolist()}",
                         dict(what='estimate-model'))
        elif kind == 'filter':
            got = [int(t) for t in line.split()]
            ctx.count('filters-compared')
            if got != obj:
                ctx.fail('corr', case, f"polarity filter keeps indices {obj}, the model {got}", dict(what='filter-model'))
        elif kind == 'gauss':
            g = common.h2f(line)
            if not common.close(g, obj, rel=1e-12, abs_=1e-300):
                raise common.LeanError(f"translator self-validation: Lean (Float) = {g!r}, the Python it was translated from = {obj!r} "
                                       f"for {case}")


# ---------------------------------------------------------------- the cases -------------------------------

HIST_COUNTER = [0]
FORCE_ORDER = [None]     # replay: the recorded order of settings


def image_case(ctx, case, lines, todo, stats, full_polarity, debug=False, cli=False):
    """all runs for one image case; Spec checks immediately, correspondence lines queued"""
    cat_a, rec_a, sf_a = run_finder(ctx, case, record=True, tag='a')
    cat_b, rec_b, sf_b = run_finder(ctx, case, negate=True, record=True, tag='b')
    ok = check_negation(ctx, case, cat_a, rec_a, cat_b, rec_b, stats, img_a=np.array(sf_a.global_data.img, dtype=float))
    runs = [('image', False, cat_a)] + ([('negative', True, cat_b)] if full_polarity else [])
    for which, negate, both in runs:
        pos, _, sfp = run_finder(ctx, case, negate=negate, nonegative=True, tag='p', outfile=True)
        neg, _, sfn = run_finder(ctx, case, negate=negate, nopositive=True, tag='n', outfile=True)
        none, _, sfz = run_finder(ctx, case, negate=negate, nopositive=True, nonegative=True, tag='z', outfile=True)
        ok = check_partition(ctx, case, both, pos, neg, none, which) and ok
        bothw, _, sfw = run_finder(ctx, case, negate=negate, tag='w', outfile=True)
        for setting, cat_, sf_ in (((False, True), pos, sfp), ((True, False), neg, sfn), ((True, True), none, sfz),
                                   ((False, False), bothw, sfw)):
            ok = check_written(ctx, case, which, setting, cat_, sf_._written) and ok
        if not same_catalogue(bothw, both):
            ok = False
            ctx.fail('spec', dict(case, image=which, outfile=True), f"passing outfile= changes the returned both-polarities "
                     f"catalogue: {len(bothw)} components instead of {len(both)}",
                     dict(what='option-dependence', option='outfile'))
        fresh = {(False, False): both, (False, True): pos, (True, False): neg, (True, True): none}
        HIST_COUNTER[0] += 1
        ok = history_case(ctx, case, fresh, FORCE_ORDER[0] or HISTORIES[HIST_COUNTER[0] % len(HISTORIES)], negate=negate) and ok
        if debug:
            ok = debug_slice(ctx, case, fresh, negate=negate) and ok
        if cli and not negate:
            ok = cli_case(ctx, case, fresh) and ok
        fluxes = [c['peak_flux'] for c in both]
        for (np_, nn_, cat) in [(0, 0, both), (0, 1, pos), (1, 0, neg), (1, 1, none)]:
            idx = {key(c): i for i, c in enumerate(both)}
            kept = [idx.get(key(c), -1) for c in cat]
            lines.append(f"filter {np_} {nn_} {fl(fluxes)}")
            todo.append(('filter', dict(case, image=which, nopositive=bool(np_), nonegative=bool(nn_)), kept))
    if ctx.driver_ok:
        im, bkg, rms = build_case(case)
        corr_islands(ctx, case, im, bkg, rms, lines, todo)
        for rec, sf, neg in ((rec_a, sf_a, False), (rec_b, sf_b, True)):
            img = np.array(sf.global_data.img, dtype=float)
            for e in rec.est:
                est_lines(e, img, lines, todo, dict(case, negated=neg))
    npos = sum(1 for c in cat_a if c['peak_flux'] > 0)
    nneg = sum(1 for c in cat_a if c['peak_flux'] < 0)
    ctx.count('components', len(cat_a))
    ctx.count('mode-' + case['mode'])
    nt = (case['noise_seed'], case['mode'], len(case['srcs'])) if (npos and nneg) else None
    ctx.case(dict(case, n_components=len(cat_a), n_pos=npos, n_neg=nneg, symmetric=ok), nontrivial_key=nt)
    return ok


def gen_image_case(ctx, mode, k):
    rng = ctx.rng
    n = rng.choice([48, 64, 80])
    inner, outer = rng.choice([(5, 4), (5, 4), (6, 3), (8, 4), (5, 5)])
    srcs = gen_sources(rng, n)
    return dict(kind='image', n=n, mode=mode, noise_seed=rng.randrange(1 << 30), srcs=srcs,
                blanks=(gen_blanks(rng, n, srcs) if k % 2 == 0 else []),
                inner=inner, outer=outer, scale=rng.choice([1.0, 0.01, 3.0]),
                max_summits=rng.choice([None, None, 1, 2]))


# the open known finding: a +1.0 and a -0.8 source (units of 100 sigma) blended into one island
WITNESS_MIXED = dict(kind='image', n=32, mode='forced', noise_seed=1, noise=0.0, bkg=0.0, scale=0.01, inner=5, outer=4,
                     srcs=[[14.0, 14.0, 100.0, 1.0], [14.0, 18.5, -80.0, 1.0]], max_summits=None)
# the same two sources far apart: two single-sign islands, must be symmetric
WITNESS_APART = dict(kind='image', n=48, mode='forced', noise_seed=1, noise=0.0, bkg=0.0, scale=0.01, inner=5, outer=4,
                     srcs=[[12.0, 12.0, 100.0, 1.0], [34.0, 33.0, -80.0, 1.0]], max_summits=None)


# a single-sign island holding a pixel whose 3x3 neighbourhood is constant (fixed by fixes/C13-01): on the pinned tree
# the flat pixel joins a summit only in the negative, the summit's first pixel moves from (7,6) to (7,5), and the two
# fits end 0.9 (relative) apart
WITNESS_FLAT = dict(kind='image', n=32, mode='forced', noise_seed=1, noise=0.0, bkg=0.0, scale=1.0, inner=5, outer=4,
                    srcs=[[15.0, 15.0, 40.0, 2.0]], blocks=[[16, 15, [[28.45] * 3] * 3]], max_summits=None)


# sources of both signs whose extreme pixel touches blank pixels: a blanked block to the right of a -30 and of a +28 sigma
# source, an isolated NaN pixel diagonal to the extreme pixel of a -22 / +25 sigma pair, one of each sign against the image
# border with a blanked edge strip; blended same-sign pairs with max_summits = 1
WITNESS_BLANK = dict(kind='image', n=80, mode='forced', noise_seed=20240913, noise=1.0, bkg=0.7, scale=0.25, inner=5, outer=4,
                     srcs=[[20.0, 20.0, -30.0, 1.0], [22.0, 58.0, 28.0, 1.0], [60.0, 40.0, -22.0, 1.0], [60.0, 62.0, 25.0, 1.0],
                           [1.4, 40.3, -40.0, 1.0], [40.2, 78.1, 35.0, 1.0], [42.0, 18.0, -24.0, 1.0], [45.6, 19.2, -18.0, 1.0],
                           [76.0, 12.0, 26.0, 1.0], [72.5, 13.4, 19.0, 1.0]],
                     blanks=[[14, 27, 21, 30], [16, 29, 59, 68], [61, 62, 41, 42], [59, 60, 61, 62], [0, 1, 30, 50],
                             [30, 50, 79, 80]], max_summits=1)


# an extended source whose island cut-out exceeds 1024 pixels (41 x 35 box, 1120 pixels) with a compact source of the
# OPPOSITE sign in a corner of its bounding box: two disjoint single-sign islands (not a mixed-sign island).  Noise-free and
# without the covariance matrix (docov=False), so the 1120-pixel fit takes 0.1 s.  Both sign assignments; forced maps and
# file-supplied maps with a step.
WITNESS_EXT_NEG = dict(kind='image', n=96, mode='forced', noise_seed=5, noise=0.0, bkg=0.1, scale=1.0, inner=5, outer=4,
                       srcs=[[48.0, 48.0, -200.0, 5.5], [64.4, 34.0, 30.0, 1.0]], max_summits=None, docov=False)
WITNESS_EXT_POS = dict(kind='image', n=96, mode='file-step', noise_seed=5, noise=0.0, scale=1.0, inner=5, outer=4,
                       srcs=[[48.0, 48.0, 200.0, 5.5], [31.6, 62.0, -30.0, 1.0]], max_summits=None, docov=False)


def large_island_conditions(case):
    """(number of islands, largest cut-out in pixels, does that cut-out hold an above-flood pixel of another island?)"""
    sfm, _ = _mods()
    im, bkg, rms = build_case(case)
    with warnings.catch_warnings():
        warnings.simplefilter('ignore')
        isl = sfm.find_islands(im=im, bkg=bkg, rms=rms, seed_clip=float(case.get('inner', 5)),
                               flood_clip=float(case.get('outer', 4)), log=_quiet)
    if not isl:
        return 0, 0, False
    big = max(isl, key=lambda I: I.mask.size)
    (x0, x1), (y0, y1) = big.bounding_box
    above = (np.abs(im - bkg) / rms >= float(case.get('outer', 4)))[x0:x1, y0:y1]
    foreign = bool((above & np.array(big.mask, dtype=bool)).any())
    return len(isl), int(big.mask.size), foreign


def corpus_cases():
    """minimised past failures / false alarms kept as regression cases: corpus/C13/*.json (image cases)"""
    import glob
    import json
    out = []
    for fn in sorted(glob.glob(os.path.join(common.VERIF, 'corpus', 'C13', '*.json'))):
        c = json.load(open(fn))
        c = {k: v for k, v in c.items() if not k.startswith('_')}
        if c.get('kind') == 'image':
            out.append(c)
    return out


def injected_filter_case(ctx, lines, todo):
    """the polarity filter at the point excluded by polarity_partition: peak fluxes NaN and 0, injected through a
    stubbed _fit_island (the loop and the test in find_sources_in_image are the real ones)"""
    sfm, _ = _mods()
    from AegeanTools.models import ComponentSource
    fluxes = [3.0, float('nan'), -2.0, 0.0, -0.0, 5.0, float('nan'), -7.5]
    case = dict(WITNESS_APART, kind='injected-filter', fluxes=[repr(f) for f in fluxes])
    im, bkg, rms = build_case(case)
    imf = write_fits(ctx, 'inj.fits', im)
    kept = {}
    for np_ in (False, True):
        for nn_ in (False, True):
            sf = sfm.SourceFinder(log=_quiet)
            calls = []

            def stub(island_data, calls=calls):
                out = []
                if not calls:
                    for j, f in enumerate(fluxes):
                        s = ComponentSource()
                        s.island, s.source, s.peak_flux = 1, j, f
                        out.append(s)
                calls.append(1)
                return out
            sf._fit_island = stub
            with warnings.catch_warnings():
                warnings.simplefilter('ignore')
                srcs = sf.find_sources_in_image(imf, rms=float(rms[0, 0]), bkg=0.0, cores=1, nopositive=np_, nonegative=nn_)
            kept[(np_, nn_)] = [int(s.source) for s in srcs]
            lines.append(f"filter {int(np_)} {int(nn_)} {fl(fluxes)}")
            todo.append(('filter', dict(case, nopositive=np_, nonegative=nn_), kept[(np_, nn_)]))
    other = [j for j, f in enumerate(fluxes) if not (f > 0 or f < 0)]
    in_pos = [j for j in other if j in kept[(False, True)]]
    in_neg = [j for j in other if j in kept[(True, False)]]
    in_none = [j for j in other if j in kept[(True, True)]]
    ctx.extra['excluded_point'] = dict(
        fluxes=[repr(f) for f in fluxes], kept={f"nopositive={a},nonegative={b}": v for (a, b), v in kept.items()},
        finding=f"components with NaN or 0 peak flux (indices {other}): {len(in_pos)}/{len(other)} are in the positive-only "
                f"list, {len(in_neg)}/{len(other)} in the negative-only list, {len(in_none)}/{len(other)} in the "
                f"(True, True) list — as polarity_other_in_both predicts; unreachable for fitted components "
                f"(amp_interval_excludes_zero + lmfit bounds), so recorded, not a violation")
    ctx.count('excluded-point-runs', 4)
    ctx.case(case, nontrivial_key=('injected-filter',))


def small_island_cases(ctx, lines, todo, count):
    """estimate_lmfit_parinfo called directly on small islands and on their negatives"""
    sfm, _ = _mods()
    rng = ctx.rng
    n = 32
    sf = sfm.SourceFinder(log=_quiet)
    imf = write_fits(ctx, 'small.fits', np.zeros((n, n)))
    with warnings.catch_warnings():
        warnings.simplefilter('ignore')
        sf.load_globals(imf, rms=1.0, bkg=0.0, cores=1)
    fixed = [
        # the toy of mixed_sign_not_symmetric
        (np.array([[1.0, 0.5, -0.5, -0.8]]), None),
        (np.array([[1.0, 1.5, 1.0], [1.5, 3.0, 1.5], [1.0, 1.5, 1.0]]), None),
        (np.array([[1.0, 1.5, 1.0, 0.9, 1.2], [1.5, 3.0, 1.5, 1.9, 1.0], [1.0, 1.5, 1.0, 2.5, 1.1], [0.9, 0.8, 0.7, 1.0, 0.9]]), 1),
        (np.array([[1.0, 1.5, 1.0, -0.9, -1.2], [1.5, 3.0, 1.5, -1.9, -1.0], [1.0, 1.5, 1.0, -2.5, -1.1], [0.9, 0.8, 0.7, -1.0, -0.9]]), None),
    ]
    for k in range(count):
        if k < len(fixed):
            data, ms = fixed[k]
            data = data.copy()
        else:
            h, w = rng.randint(1, 6), rng.randint(1, 6)
            style = rng.choice(['pos', 'neg', 'pos', 'neg', 'mixed'])
            data = np.array([[rng.choice([0.45, 0.5, 0.6, 0.75, 1.0, 1.5, 2.0, 3.0]) for _ in range(w)] for _ in range(h)])
            if style == 'neg':
                data = -data
            elif style == 'mixed':
                data *= np.array([[rng.choice([1, 1, -1]) for _ in range(w)] for _ in range(h)])
            for _ in range(rng.choice([0, 0, 1, 2])):
                data[rng.randrange(h), rng.randrange(w)] = np.nan
            if not np.isfinite(data).any():
                data[0, 0] = 1.0
            ms = rng.choice([None, None, 1, 2])
        h, w = data.shape
        rms = np.full((h, w), 0.1)
        # curvature as _fit_island would compute it on an image that holds just this island (zeros around)
        pad = np.zeros((h + 2, w + 2))
        pad[1:-1, 1:-1] = np.nan_to_num(data)
        from scipy.ndimage import maximum_filter, minimum_filter
        curve = np.zeros((h + 2, w + 2), dtype=int)
        curve[maximum_filter(pad, size=3) == pad] = -1
        curve[minimum_filter(pad, size=3) == pad] = 1
        curve = curve[1:-1, 1:-1]
        res = []
        for sgn in (1, -1):
            d, c = sgn * data, sgn * curve
            with warnings.catch_warnings():
                warnings.simplefilter('ignore')
                p = sf.estimate_lmfit_parinfo(d.copy(), rms.copy(), c.copy(), None, 5, 4, offsets=(8, 8), max_summits=ms)
            e = dict(isle=None, data=d, rms=rms, curve=c, inner=5.0, outer=4.0, offsets=(8, 8), max_summits=ms,
                     samp=sampling_map(sf, d, c, (8, 8)),
                     params=params_tuple(p))
            res.append(e)
            est_only(e, lines, todo, dict(kind='small-island', data=[[None if v != v else v for v in r] for r in d.tolist()],
                                          curve=c.tolist(), max_summits=ms))
        v = data[np.isfinite(data)]
        mixed = bool((v > 0).any() and (v < 0).any())
        a, b = res[0]['params'], res[1]['params']
        mirrored = None if b is None else [dict(c, amp=-c['amp'], amp_min=-c['amp_max'], amp_max=-c['amp_min']) for c in b]
        sym = comps_equal(a, mirrored) and (a is None or all(
            all(common.close(x[f], y[f]) for f in ('sx', 'sy', 'theta', 'sx_min', 'sx_max', 'xo_min', 'xo_max')) for x, y in zip(a, b)))
        case = dict(kind='small-island', data=[[None if t != t else t for t in r] for r in data.tolist()],
                    curve=curve.tolist(), max_summits=ms)
        if not sym:
            ctx.fail('spec', case, f"estimate_lmfit_parinfo is not sign-symmetric on this island (pixels of both signs: "
                     f"{mixed}): {short(a)} for the island, {short(mirrored)} for its negative (mirrored back)",
                     dict(what='negation-asymmetry', site='estimate_lmfit_parinfo', mixed_sign_island=mixed))
            ctx.count('small-asymmetric-mixed' if mixed else 'small-asymmetric-single-sign')
        else:
            ctx.count('small-symmetric-mixed' if mixed else 'small-symmetric')
        ctx.case(case, nontrivial_key=('small', repr(data.tolist()), ms) if a else None, sample_every=41)


def gauss_validation(ctx, lines, todo):
    _, fitting = _mods()
    rng = ctx.rng
    for _ in range(40):
        a = [rng.uniform(-5, 5), rng.uniform(-5, 5), rng.uniform(-3, 3), rng.uniform(-2, 2), rng.uniform(-2, 2),
             rng.uniform(0.5, 3), rng.uniform(0.5, 3), rng.uniform(-180, 180)]
        lines.append("gauss " + " ".join(common.f2h(v) for v in a))
        todo.append(('gauss', a, float(fitting.elliptical_gaussian(*a))))


def leaf_validation(ctx, lines, todo):
    """the regenerated leaves of estimate_lmfit_parinfo (Float) vs the Python slices they were translated from"""
    sys_path = os.path.join(common.VERIF, 'translator')
    import sys
    if sys_path not in sys.path:
        sys.path.insert(0, sys_path)
    import importlib.util
    spec = importlib.util.spec_from_file_location('targets_C13_live', os.path.join(sys_path, 'targets', 'C13.py'))
    tg = importlib.util.module_from_spec(spec)
    spec.loader.exec_module(tg)
    status = ctx.extra.get('translator') or {}
    src = open(tg._S).read().replace('return amp_min', 'return (amp_min, amp_max)')
    ns = {}
    try:
        exec(compile(src, tg._S, 'exec'), ns)
    except Exception:
        return
    rng = ctx.rng
    for _ in range(25):
        amp, r, inner, outer, samp = (rng.choice([-1, 1]) * rng.uniform(0.1, 50), rng.uniform(0.01, 3), rng.uniform(3, 10),
                                      rng.uniform(2, 6), rng.uniform(1.05, 1.4))
        for fn, lo, hi in (('amp_pos', 'ampMinPos', 'ampMaxPos'), ('amp_neg', 'ampMinNeg', 'ampMaxNeg')):
            if status.get(lo) != 'translated':
                continue
            ns['rmsimg'], ns['xo'], ns['yo'] = {(0, 0): r}, 0, 0
            try:
                vmin, vmax = ns[fn](amp, r, inner, outer, samp)
            except Exception:
                continue
            for name, v in ((lo, vmin), (hi, vmax)):
                lines.append(f"leaf {name} " + " ".join(common.f2h(x) for x in (amp, r, inner, outer, samp)))
                todo.append(('gauss', (name, amp, r, inner, outer, samp), float(v)))
        d = rng.choice([-1, 1]) * rng.uniform(0.1, 50)
        for fn, name in (('summit_pos', 'summitArgPos'), ('summit_neg', 'summitArgNeg')):
            if status.get(name) != 'translated':
                continue
            try:
                v = ns[fn](d, r, inner, outer)
            except Exception:
                continue
            lines.append(f"leaf {name} " + " ".join(common.f2h(x) for x in (d, r, inner, outer)))
            todo.append(('gauss', (name, d, r, inner, outer), float(v)))


def new_stats():
    return dict(worst=0.0, worst_by_field={})


def finish_stats(ctx, stats):
    ctx.count('curvature-windows-with-blank-pixels', ctx_count_blank[0])
    ctx_count_blank[0] = 0
    ctx.extra['negation_tolerance'] = TOL
    ctx.extra['negation_worst_relative_deviation_single_sign_islands'] = stats['worst']
    ctx.extra['negation_worst_by_field'] = {k: num(v) for k, v in sorted(stats['worst_by_field'].items())}
    ctx.extra['roundoff_sensitive_islands'] = stats.get('roundoff_sensitive', [])


def run(ctx):
    _mods()
    HIST_COUNTER[0] = ctx.seed
    lines, todo = [], []
    stats = new_stats()
    if ctx.driver_ok:
        gauss_validation(ctx, lines, todo)
        leaf_validation(ctx, lines, todo)
    # corpus
    image_case(ctx, WITNESS_MIXED, lines, todo, stats, full_polarity=False, debug=True)
    image_case(ctx, WITNESS_APART, lines, todo, stats, full_polarity=True, debug=True, cli=True)
    image_case(ctx, WITNESS_FLAT, lines, todo, stats, full_polarity=False)
    image_case(ctx, WITNESS_BLANK, lines, todo, stats, full_polarity=True, debug=True)
    for w in (WITNESS_EXT_NEG, WITNESS_EXT_POS, dict(WITNESS_EXT_NEG, mode='file-step'), dict(WITNESS_EXT_POS, mode='forced', bkg=0.1)):
        nisl, size, foreign = large_island_conditions(w)
        if nisl == 2 and size > 1024 and foreign:
            ctx.count('large-island (> 1024 px cut-out) with a pixel of another island in its box')
        else:
            raise RuntimeError(f"corpus case lost its shape: {nisl} islands, largest cut-out {size} px, foreign pixel {foreign}")
        image_case(ctx, w, lines, todo, stats, full_polarity=True, debug=(w is WITNESS_EXT_NEG))
    image_case(ctx, dict(WITNESS_BLANK, mode='file', max_summits=2), lines, todo, stats, full_polarity=False, cli=True)
    for c in corpus_cases():
        image_case(ctx, c, lines, todo, stats, full_polarity=False)
    injected_filter_case(ctx, lines, todo)
    # generated images
    nimg = 10 if ctx.quick else 60
    for k in range(nimg):
        for mode in ('forced', 'file-step' if k % 3 == 1 else 'file'):
            image_case(ctx, gen_image_case(ctx, mode, k), lines, todo, stats, full_polarity=not ctx.quick,
                       debug=(k == 0 or (not ctx.quick and k % 10 == 5)))
    small_island_cases(ctx, lines, todo, 80 if ctx.quick else 600)
    finish_stats(ctx, stats)
    if ctx.driver_ok:
        outs = ctx.driver.batch(lines)
        judge(ctx, todo, outs)


def unknown_spec(ctx):
    known = common.load_known(ctx.prop)
    return [f for f in ctx.failures if f['kind'] == 'spec' and not any(common.matches(e, f) for e in known)]


def search(ctx):
    """more image pairs, implementation vs Spec only (no driver needed)"""
    _mods()
    if unknown_spec(ctx):
        return
    saved = ctx.driver_ok
    ctx.driver_ok = False
    stats = new_stats()
    lines, todo = [], []
    try:
        for k in range(4 if ctx.quick else 12):
            for mode in ('forced', 'file'):
                image_case(ctx, gen_image_case(ctx, mode, k), lines, todo, stats, full_polarity=False)
                if unknown_spec(ctx):
                    return
        small_island_cases(ctx, lines, todo, 200)
    finally:
        ctx.driver_ok = saved


def replay(ctx, rec):
    _mods()
    if not rec.get('case'):
        ctx.note("this replay records a failed proof obligation / build, not an input: " + str(rec.get('detail'))[:400])
        return run(ctx)
    case = {k: v for k, v in rec['case'].items() if k not in ('island', 'image', 'negated', 'nopositive', 'nonegative', 'history', 'debug', 'outfile', 'cli')}
    lines, todo = [], []
    stats = new_stats()
    if rec['case'].get('history'):
        FORCE_ORDER[0] = [tuple(bool(b) for b in h) for h in rec['case']['history']]
    if case.get('kind') == 'image':
        image_case(ctx, case, lines, todo, stats, full_polarity=True, debug=bool(rec['case'].get('debug')),
                   cli=('cli' in rec['case']))
    elif case.get('kind') == 'injected-filter':
        injected_filter_case(ctx, lines, todo)
    elif case.get('kind') == 'small-island':
        replay_small(ctx, case, lines, todo)
    finish_stats(ctx, stats)
    if ctx.driver_ok and lines:
        judge(ctx, todo, ctx.driver.batch(lines))


def replay_small(ctx, case, lines, todo):
    sfm, _ = _mods()
    data = np.array([[np.nan if v is None else v for v in r] for r in case['data']], dtype=float)
    curve = np.array(case['curve'], dtype=int)
    ms = case.get('max_summits')
    sf = sfm.SourceFinder(log=_quiet)
    imf = write_fits(ctx, 'small.fits', np.zeros((32, 32)))
    with warnings.catch_warnings():
        warnings.simplefilter('ignore')
        sf.load_globals(imf, rms=1.0, bkg=0.0, cores=1)
    rms = np.full(data.shape, 0.1)
    res = []
    for sgn in (1, -1):
        with warnings.catch_warnings():
            warnings.simplefilter('ignore')
            p = sf.estimate_lmfit_parinfo(sgn * data, rms.copy(), sgn * curve, None, 5, 4, offsets=(8, 8), max_summits=ms)
        e = dict(isle=None, data=sgn * data, rms=rms, curve=sgn * curve, inner=5.0, outer=4.0, offsets=(8, 8),
                 samp=sampling_map(sf, sgn * data, sgn * curve, (8, 8)),
                 max_summits=ms, params=params_tuple(p))
        res.append(e)
        est_only(e, lines, todo, case)
    a, b = res[0]['params'], res[1]['params']
    mirrored = None if b is None else [dict(c, amp=-c['amp'], amp_min=-c['amp_max'], amp_max=-c['amp_min']) for c in b]
    v = data[np.isfinite(data)]
    mixed = bool((v > 0).any() and (v < 0).any())
    if not comps_equal(a, mirrored):
        ctx.fail('spec', case, f"estimate_lmfit_parinfo is not sign-symmetric on this island (pixels of both signs: {mixed}): "
                 f"{short(a)} vs {short(mirrored)}",
                 dict(what='negation-asymmetry', site='estimate_lmfit_parinfo', mixed_sign_island=mixed))
    ctx.case(case)
