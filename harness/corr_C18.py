"""
C18 — catalogue write/read round trip: correspondence + Spec evaluation on the real files.

For every case (catalogue, file name, format, prefix, meta):
  real   save_catalog(filename, catalogue, meta=, prefix=)  ->  files on disk
         load_table / table_to_source_list (sqlite3 for .db)  ->  sources read back
  Spec   (the property, evaluated directly on what came back) count, order, island/source numbers,
         flags, uuids, coordinate strings identical; numeric attributes equal at double precision
         (csv/tab/tex/vot/xml/db) or single precision (fits); NaN comes back as a float NaN, the -1
         marker as -1; exactly the documented _comp/_isle/_simp files, each holding exactly the
         sources of its type in catalogue order; sqlite tables hold the same rows
  Model  (Lean driver, `cat`/`plan`/`splitext`/`single` ops of Aegean/Driver/C18.lean) the partition,
         the file names, the column names and order, the FITS TFORM of every column and the strings a
         FITS string column gives back, the sqlite table names / declared column types; compared
         with what the code did (files created, FITS header, PRAGMA table_info, uuid order)

A 'spec' failure = the implementation violates the property on this concrete catalogue (replayable);
a 'corr' failure = implementation and model disagree.
"""
import json
import math
import os
import sqlite3
import warnings

import numpy as np

import common

LEVEL = 'proof'
LEANCHECKER = True
RULE = ("a case = (catalogue, file name, format, prefix, meta) written by the real save_catalog and read back by "
        "load_table/table_to_source_list (sqlite3 for db; line count for ann/reg); non-trivial = at least 2 rows and "
        "at least one of: two or more source types, a NaN field, a -1 error marker, string lengths that differ "
        "between rows, a first row that is atypical (shorter strings / ints in float fields / empty string); file size "
        "classes (tiny / ~64 KiB / either side of 1 MiB / > 1 MiB in quick, > 16 MiB in thorough) are a generator "
        "dimension, reported in the histogram as size:*; "
        "distinct by (format, prefix, meta, digest of the catalogue)")
ASSUMPTIONS = [
    "astropy.io.ascii / votable / fits and sqlite3 write and parse cells as documented; they are exercised, not "
    "modelled (the Lean model covers classify_catalog, file naming, column construction, the FITS format decision, "
    "the db row mapping and table_to_source_list)",
    "sqlite cannot store NaN: the sqlite3 module binds NaN as NULL; NULL read back from a FLOAT cell is accepted as "
    "the image of NaN (and only of NaN)",
    "domain: ASCII strings without leading/trailing blanks; uuids that do not look like numbers (text formats carry "
    "no column types, astropy infers them); |integers| < 2**31 (FITS J columns); meta values are strings (as the "
    "CLI passes them); a float32 attribute is compared at float32 precision, its own",
    "hypotheses of roundtrip_with_masking_partial (class default of a float attribute is NaN, of a string attribute "
    "'') and of minus_one_preserved (float32(-1) == -1) are checked on the real classes at the start of every run",
]
TRUSTED = ["hand model Aegean/Model/C18.lean of catalogs.py / models.classify_catalog, tied by this correspondence",
           "Gen.C18.fitsLetter/fitsWidth (writeFITSTable column decision incl. FITSTableType), sqlCode (writeDB.sqlTypes), "
           "classifyWhich (classify_catalog isinstance chain): regenerated from the tree under test by "
           "translator/targets/C18.py (slicer) + py2lean.py, validated each run against the Python slices on the full "
           "tag grid; Properties/C18.lean proves the assembled decisions equal the model's (gen_column_decision, "
           "gen_sql_type, gen_classify_eq)"]
PARTIAL = [
    "roundtrip_with_masking_partial: proved — table_to_source_list inverts the table construction, also when the "
    "reader masks NaN / empty cells; sampled — that astropy's and sqlite3's writers+readers reproduce each cell "
    "(double precision for csv/tab/tex/vot/xml/db, single for fits)",
]

TABLE_EXTS = ['csv', 'tab', 'tex', 'vot', 'xml', 'fits', 'vo']
DB_EXTS = ('db', 'sqlite')
ALL_EXTS = ['csv', 'tab', 'tex', 'vot', 'xml', 'fits', 'db']
RARE_EXTS = ['vo', 'sqlite']
SUFFIX = {'C': '_comp', 'I': '_isle', 'S': '_simp'}
KIND = {'C': 'comp', 'I': 'isle', 'S': 'simp'}
DBTABLE = {'C': 'components', 'I': 'islands', 'S': 'simples'}
INT_FIELDS = {'island', 'source', 'flags'}
STR_FIELDS = {'ra_str', 'dec_str', 'uuid'}


_SUB = {}


def subclasses():
    """user-defined subclasses of the three source classes (letters c, i, s in a catalogue spec): instances ARE
    components / islands / simple sources (`isinstance`), with an extra attribute and method of their own"""
    if not _SUB:
        cl = classes()
        for L, base in cl.items():
            _SUB[L.lower()] = type('User' + base.__name__, (base,),
                                   {'survey': 'verif', 'tag': lambda self: (self.survey, self.uuid)})
    return _SUB


def classes():
    import logging
    logging.getLogger('Aegean').setLevel(logging.CRITICAL)
    logging.getLogger('Aegean').addHandler(logging.NullHandler())
    from AegeanTools.models import ComponentSource, IslandSource, SimpleSource
    return {'C': ComponentSource, 'I': IslandSource, 'S': SimpleSource}


# ---------------------------------------------------------------------------------------------
# value encoding (JSON-safe, exact)

def enc(v):
    if isinstance(v, (bool, np.bool_)):
        return ['b', bool(v)]
    if isinstance(v, np.float32):
        return ['f32', common.f2h(float(v))]
    if isinstance(v, (int, np.integer)):
        return ['i', int(v)]
    if isinstance(v, (float, np.floating)):
        return ['f', common.f2h(float(v))]
    if isinstance(v, str):
        return ['s', str(v)]
    if v is None:
        return ['N']
    raise TypeError(f"cannot encode {v!r}")


def dec(e):
    t = e[0]
    if t == 'b':
        return bool(e[1])
    if t == 'f32':
        return np.float32(common.h2f(e[1]))
    if t == 'i':
        return int(e[1])
    if t == 'f':
        return common.h2f(e[1])
    if t == 's':
        return e[1]
    return None


def cell_token(e):
    """one cell for the Lean driver"""
    t = e[0]
    if t == 'b':
        return 'b1' if e[1] else 'b0'
    if t == 'i':
        return f'i{e[1]}'
    if t in ('f', 'f32'):
        x = common.h2f(e[1])
        return 'n' if x != x else 'f' + e[1][1:]
    if t == 's':
        return 's' + e[1].encode().hex()
    return 'N'


def hexs(s):
    return s.encode().hex() if s else '-'


def unhex(h):
    return '' if h == '-' else bytes.fromhex(h).decode()


def build(cat_spec):
    """cat_spec: list of [cls_letter, {attr: encoded}]  ->  list of real source objects"""
    cl = classes()
    out = []
    for letter, attrs in cat_spec:
        if letter == 'O':
            out.append(object())
            continue
        s = cl[letter]() if letter in cl else subclasses()[letter]()
        for k, e in attrs.items():
            setattr(s, k, dec(e))
        if letter.upper() == 'I':
            s.extent = (1, 3, 2, 5)
            s.max_angular_size_anchors = [1, 2, 3, 4]
            s.contour = [(1, 1), (1, 2), (2, 2)]
            s.pix_mask = [(1, 1)]
        out.append(s)
    return out


# ---------------------------------------------------------------------------------------------
# generators

def rand_uuid(rng, lo=1, hi=40):
    import uuid as _uuid
    u = str(_uuid.UUID(int=rng.getrandbits(128), version=4))
    L = rng.choice([lo, 2, 8, 9, 13, 36, 36, 36, rng.randint(lo, hi)])
    s = (u + '-' + u)[:max(lo, min(L, hi))]
    s = s.strip('-') or 'a'
    try:                                   # text formats would read a numeric-looking column as numbers
        float(s)
        s = 'a' + s[1:] if len(s) > 1 else 'a'
        float(s)
        s = 'g' + s[1:]
    except ValueError:
        pass
    return s


def rand_coord(rng, ra):
    style = rng.random()
    if style < 0.08:
        return 'XX:XX:XX.XX'
    if ra:
        h, m, s = rng.randint(0, 23), rng.randint(0, 59), rng.random() * 60
        if style < 0.25:
            return f'{h}:{m}:{s:.1f}'
        return f'{h:02d}:{m:02d}:{s:05.2f}'
    d, m, s = rng.randint(0, 89), rng.randint(0, 59), rng.random() * 60
    sign = rng.choice('+-')
    if style < 0.25:
        return f'{sign}{d}:{m}:{s:.0f}'
    return f'{sign}{d:02d}:{m:02d}:{s:05.2f}'


EXTREME = [1e-300, 1e300, 5e-324, 1.7976931348623157e308, -1e300, 2.2250738585072014e-308, 1e-45, 3.4028235e38,
           3.5e38, 123456789.123456789, -0.0, 0.0, 1 / 3, float('inf'), float('-inf'), 0.1, 16777217.0]


def rand_float(rng, profile):
    r = rng.random()
    if r < profile.get('nan', 0.08):
        return float('nan')
    if r < 0.16:
        return rng.choice(EXTREME)
    if r < 0.22:
        return float(rng.randint(-5, 50))               # integer-valued float
    if r < 0.25 and profile.get('pyint', True):
        return rng.randint(-3, 40)                      # a Python int in a float field
    mag = 10 ** rng.uniform(-6, 4)
    return (-mag if rng.random() < 0.3 else mag) * rng.random()


def rand_source(rng, letter, idx, profile):
    if letter == 'O':
        return ['O', None]
    cl = classes()
    names = cl[letter.upper()].names
    attrs = {}
    f32cols = profile.get('f32cols', ())
    for n in names:
        if n == 'island':
            v = rng.choice([idx, idx, -idx, rng.randint(0, 10 ** 6), 2 ** 31 - 1 if rng.random() < 0.02 else idx])
        elif n == 'source':
            v = rng.randint(0, 12)
        elif n == 'flags':
            v = rng.randint(0, 127)
        elif n in ('components', 'pixels'):
            v = rng.randint(1, 5000) if rng.random() < 0.9 or not profile.get('nan_counts') else float('nan')
        elif n == 'ra_str':
            v = rand_coord(rng, True)
        elif n == 'dec_str':
            v = rand_coord(rng, False)
        elif n == 'uuid':
            v = rand_uuid(rng)
        elif n.startswith('err_'):
            r = rng.random() * 0.4 / max(profile.get('minus_one', 0.4), 1e-9)
            v = -1.0 if r < 0.3 else (-1 if r < 0.4 else abs(rand_float(rng, dict(profile, nan=min(0.03, profile.get('nan', 0.03))))))
        elif n in f32cols:
            v = np.float32(rng.uniform(-1, 1) * 10 ** rng.uniform(-5, 2))
        else:
            v = rand_float(rng, profile)
        attrs[n] = enc(v)
    if profile.get('empty_str', 0) and rng.random() < profile['empty_str']:
        for n in ('ra_str', 'dec_str'):
            if n in attrs:
                attrs[n] = enc('')
    return [letter, attrs]


def atypical_first(rng, src):
    """make a source an 'atypical first row': shorter strings, ints for floats, maybe an empty string"""
    letter, attrs = src
    attrs = dict(attrs)
    mode = rng.choice(['short', 'short', 'empty', 'ints', 'all'])
    if mode in ('short', 'all'):
        for n in ('ra_str', 'dec_str'):
            if n in attrs:
                attrs[n] = enc('1:2:3')
        attrs['uuid'] = enc(rand_uuid(rng, 1, 2))
    if mode == 'empty':
        for n in ('ra_str', 'dec_str'):
            if n in attrs:
                attrs[n] = enc('')
    if mode in ('ints', 'all'):
        for n, e in attrs.items():
            if e[0] == 'f' and not n.startswith('err_'):
                attrs[n] = enc(rng.randint(0, 9))
            elif n.startswith('err_'):
                attrs[n] = enc(-1)
    return [letter, attrs]


def gen_catalogue(rng, nrows, mix, profile):
    """mix: string of class letters to draw from, e.g. 'C', 'CIS', 'CCCIO'"""
    cat = [rand_source(rng, rng.choice(mix), i + 1, profile) for i in range(nrows)]
    if profile.get('atypical') and cat:
        first_of = {}
        for k, (letter, _) in enumerate(cat):
            first_of.setdefault(letter.upper(), k)
        for letter, k in first_of.items():
            if letter != 'O':
                cat[k] = atypical_first(rng, cat[k])
    return cat


FILE_STEMS = ['out', 'cat.v1', 'A.B.c', '.hidden', 'with space', 'x_comp', 'UPPER', 'κατάλογος_é']
METAS = [None, {}, {'PROGRAM': 'Aegean', 'RUN-AS': 'aegean image.fits --table out.fits,out.csv ' + 'x' * 90,
                    'FITSFILE': '/data/d.ir/image_1.fits'}]


def digest(cat):
    import hashlib
    return hashlib.sha1(json.dumps(cat, sort_keys=True).encode()).hexdigest()[:12]


CONTAINERS = ['list', 'tuple', 'ndarray', 'generator', 'iter', 'chain', 'filter']


def wrap(cat, container):
    """hand the catalogue over as the documented 'list or iterable object'"""
    if container in (None, 'list'):
        return cat
    if container == 'tuple':
        return tuple(cat)
    if container == 'ndarray':
        arr = np.empty(len(cat), dtype=object)
        for k, c in enumerate(cat):
            arr[k] = c
        return arr
    if container == 'generator':
        return (c for c in cat)
    if container == 'iter':
        return iter(cat)
    if container == 'chain':
        import itertools
        return itertools.chain(cat[:len(cat) // 2], cat[len(cat) // 2:])
    if container == 'filter':
        return filter(lambda c: True, cat)
    raise ValueError(container)


class debug_logging:
    """root and 'Aegean' loggers at DEBUG (handlers silenced), restored afterwards"""
    def __init__(self, on):
        self.on = on

    def __enter__(self):
        if self.on:
            import logging
            self.lg = [logging.getLogger(), logging.getLogger('Aegean')]
            self.old = [(l.level, l.propagate) for l in self.lg]
            for l in self.lg:
                l.setLevel(logging.DEBUG)
            self.lg[1].propagate = False

    def __exit__(self, *a):
        if self.on:
            for l, (lev, prop) in zip(self.lg, self.old):
                l.setLevel(lev)
                l.propagate = prop


def make_case(rng, cat, ext, stem=None, prefix=None, meta_i=0, upper=False, subdir=None):
    return dict(ext=ext, stem=stem or 'out', prefix=prefix, meta=meta_i, upper=upper, subdir=subdir, catalog=cat)


# ---------------------------------------------------------------------------------------------
# the real round trip

def is_nan(x):
    return isinstance(x, (float, np.floating)) and x != x


def typed_nan(y):
    return isinstance(y, (float, np.floating)) and not isinstance(y, np.ma.core.MaskedConstant) and y != y


def num_equal(x, y, single):
    """x written, y read back. Returns None if fine, else a reason string."""
    if y is np.ma.masked or isinstance(y, np.ma.core.MaskedConstant):
        return 'masked constant'
    if isinstance(y, (str, bytes)) or y is None:
        return f'non-numeric {type(y).__name__}'
    if is_nan(x):
        return None if typed_nan(y) else f'NaN came back as {y!r}'
    try:
        yf = float(y)
    except Exception:
        return f'non-numeric {type(y).__name__}'
    if yf != yf:
        return 'NaN for a number'
    with np.errstate(all='ignore'):
        if single or isinstance(x, np.float32):
            return None if np.float32(x) == np.float32(yf) else f'{float(x)!r} -> {yf!r} (float32 differs)'
    return None if float(x) == yf else f'{float(x)!r} -> {yf!r}'


def strip_prefix(table, prefix):
    if prefix is None:
        return table
    pre = prefix + '_'
    for c in list(table.colnames):
        if c.startswith(pre):
            table.rename_column(c, c[len(pre):])
    return table


def paths_for(case, root):
    d = os.path.join(root, case['_dir'])
    if case.get('subdir'):
        d = os.path.join(d, case['subdir'])
    os.makedirs(d, exist_ok=True)
    ext = case['ext'].upper() if case.get('upper') else case['ext']
    fn = os.path.join(d, case['stem'] + ('.' + ext if ext else ''))
    return d, fn


def real_roundtrip(ctx, case, root):
    """run the real code; returns obs dict with 'fail' list of (what, detail, extra-signature)"""
    from AegeanTools import catalogs as C
    cl = classes()
    cat_spec = case['catalog']
    cat = build(cat_spec)
    d, fn = paths_for(case, root)
    ext = case['ext']
    fails = []
    obs = dict(fails=fails, dir=d, filename=fn, files=None, per_kind={})
    meta = METAS[case['meta']]
    meta = dict(meta) if meta is not None else None
    # history: earlier catalogues written to the SAME name first (their outcome is not judged here;
    # each of them is judged as the last write of its own, shorter, history)
    container = case.get('container')
    stats = {}
    for prev in case.get('history') or []:
        try:
            with warnings.catch_warnings():
                warnings.simplefilter('ignore')
                with np.errstate(all='ignore'):
                    C.save_catalog(fn, wrap(build(prev), container), meta=dict(meta) if meta is not None else None,
                                   prefix=case['prefix'])
                if case.get('read_between'):            # the application reads what it wrote, then rewrites it
                    for f in os.listdir(d):
                        pth = os.path.join(d, f)
                        if os.path.splitext(f)[1][1:].lower() in TABLE_EXTS:
                            C.load_table(pth)
                            st = os.stat(pth)
                            stats[pth] = (st.st_mtime_ns, st.st_size)
        except Exception:
            pass
    prior = set(os.listdir(d))
    obs['prior'] = sorted(prior)
    try:
        with warnings.catch_warnings():
            warnings.simplefilter('ignore')
            with np.errstate(all='ignore'), debug_logging(case.get('debug')):
                C.save_catalog(fn, wrap(cat, container), meta=meta, prefix=case['prefix'])
        if case.get('same_mtime'):
            # coarse-timestamp file systems / cp -p / rsync -t: the rewritten file carries the SAME mtime;
            # only applied where the size is unchanged too
            applied = 0
            for pth, (mt, sz) in stats.items():
                if os.path.exists(pth) and os.path.getsize(pth) == sz:
                    os.utime(pth, ns=(os.stat(pth).st_atime_ns, mt))
                    applied += 1
            obs['same_stat_applied'] = applied
    except Exception as e:
        first = {}
        for letter, attrs in cat_spec:
            first.setdefault(letter, attrs)
        empty_first = any(a.get(n, [None, 'x'])[1] == '' for a in first.values() if a for n in ('ra_str', 'dec_str'))
        fails.append(('write-raises', f"save_catalog raised {type(e).__name__}: {e}",
                      dict(exception=type(e).__name__, empty_first_string=bool(empty_first))))
        return obs
    # the caller's catalogue must come back as it was passed (same objects, same order, same attribute
    # values; float32 -> float64 of the same value by _sanitise is the documented exception)
    mutated = None
    if len(cat) != len(cat_spec):
        mutated = f"catalogue list has {len(cat)} entries after the call, {len(cat_spec)} before"
    else:
        for k, (obj, (letter, attrs)) in enumerate(zip(cat, cat_spec)):
            for n, e in (attrs or {}).items():
                x, y = dec(e), getattr(obj, n, '<missing>')
                same = (isinstance(y, str) and y == x) if isinstance(x, str) else \
                    (not isinstance(y, str) and ((is_nan(x) and typed_nan(y)) or (not is_nan(x) and y == x)))
                if not same:
                    mutated = f"source {k} attribute {n} was {x!r} before save_catalog and is {y!r} after"
                    break
            if mutated:
                break
    if mutated:
        fails.append(('argument-mutated', mutated, {}))
    root_, ext_ = os.path.splitext(fn)
    present_all = sorted(os.listdir(d))
    by_letter = {L: [k for k, (l, _) in enumerate(cat_spec) if l.upper() == L] for L in 'CIS'}   # c, i, s: subclass instances
    if ext in DB_EXTS:
        want = [os.path.basename(fn)]
    elif ext in ('ann', 'reg'):
        want = [os.path.basename(w[0]) for w in annotation_wants(ext, by_letter, root_, ext_)]
    else:
        want = sorted(os.path.basename(root_ + SUFFIX[L] + ext_) for L in 'CIS' if by_letter[L])
    # a sibling file left by an EARLIER write of this history, of a type that no longer occurs, is not an
    # output of this write (fsWrite_other_files_untouched): recorded as an observation, not judged
    stale = sorted(f for f in present_all if f not in want and f in prior)
    obs['stale_siblings'] = stale
    present = [f for f in present_all if f not in stale]
    obs['files'] = present
    obs['bytes'] = max([os.path.getsize(os.path.join(d, f)) for f in present] or [0])
    if ext in ('ann', 'reg'):
        return check_annotations(case, obs, by_letter, root_, ext_, present, fails)
    if present != want:
        fails.append(('files', f"files written {present}, the property requires {want}", {}))
        return obs
    if ext in DB_EXTS:
        con = sqlite3.connect(fn)
        tables = [r[0] for r in con.execute("select name from sqlite_master where type='table' order by rowid")]
        obs['db_tables'] = tables
        wantt = [DBTABLE[L] for L in 'CIS' if by_letter[L]] + ['meta']
        if sorted(tables) != sorted(wantt):
            extra_t = sorted(set(tables) - set(wantt))
            fails.append(('db-tables', f"sqlite tables {tables}, the current catalogue requires exactly {wantt}"
                          + (f" (tables {extra_t} hold rows of an earlier write)" if extra_t and case.get('history') else ""),
                          dict(stale_table=bool(extra_t), missing_table=bool(set(wantt) - set(tables)))))
    for L in 'CIS':
        idx = by_letter[L]
        if not idx:
            continue
        names = cl[L].names
        try:
            with warnings.catch_warnings():
                warnings.simplefilter('ignore')
                if ext in DB_EXTS:
                    info = con.execute(f"PRAGMA table_info({DBTABLE[L]})").fetchall()
                    cols = [r[1] for r in info]
                    rows = con.execute(f"select * from {DBTABLE[L]} order by rowid").fetchall()
                    back = [dict(zip(cols, r)) for r in rows]
                    obs['per_kind'][L] = dict(colnames=cols, types=[r[2] for r in info])
                    get = lambda r, n: r.get(n, '<missing>')  # noqa: E731
                else:
                    path = root_ + SUFFIX[L] + ext_
                    if ext in TABLE_EXTS:
                        t = C.load_table(path)
                    else:                                      # unknown extension: written in tab format
                        from astropy.io import ascii
                        t = ascii.read(path, format='tab')
                    rawcols = list(t.colnames)
                    t = strip_prefix(t, case['prefix'])
                    back = C.table_to_source_list(t, cl[L])
                    obs['per_kind'][L] = dict(colnames=rawcols)
                    get = lambda r, n: getattr(r, n, '<missing>')  # noqa: E731
                    if ext == 'fits':
                        from astropy.io import fits
                        with fits.open(path) as h:
                            hd = h[1].header
                            obs['per_kind'][L]['tform'] = [hd[f'TFORM{k}'] for k in range(1, hd['TFIELDS'] + 1)]
                            obs['per_kind'][L]['ttype'] = [hd[f'TTYPE{k}'] for k in range(1, hd['TFIELDS'] + 1)]
                            data = h[1].data
                            obs['per_kind'][L]['strings'] = {
                                hd[f'TTYPE{k}']: [str(x) for x in data[hd[f'TTYPE{k}']]]
                                for k in range(1, hd['TFIELDS'] + 1) if hd[f'TFORM{k}'].endswith('A')}
        except Exception as e:
            fails.append(('read-raises', f"reading {KIND[L]} back raised {type(e).__name__}: {e}", dict(kind=KIND[L])))
            continue
        if len(back) != len(idx):
            fails.append(('count', f"{KIND[L]}: wrote {len(idx)} sources, read {len(back)}", dict(kind=KIND[L])))
            continue
        obs['per_kind'][L]['uuids'] = [str(get(r, 'uuid')) for r in back]
        single = ext == 'fits'
        for pos, (k, r) in enumerate(zip(idx, back)):
            attrs = cat_spec[k][1]
            bad = None
            for n in names:
                x = dec(attrs[n])
                y = get(r, n)
                if n in STR_FIELDS:
                    if not (isinstance(y, str) and str(y) == x):
                        first_len = len(dec(cat_spec[idx[0]][1][n]))
                        what = 'uuid' if n == 'uuid' else 'coord-string'
                        bad = (what, n, f"{x!r} -> {y!r}",
                               dict(column=n, truncated=bool(isinstance(y, str) and x.startswith(str(y)) and len(str(y)) < len(x)),
                                    first_row_shorter=bool(first_len < len(x)), empty=bool(x == ''),
                                    masked=bool(y is np.ma.masked)))
                elif n in INT_FIELDS:
                    ok = isinstance(y, (int, np.integer)) and not isinstance(y, bool) and int(y) == x
                    if not ok:
                        bad = ('int-field', n, f"{x!r} -> {y!r}", dict(column=n))
                else:
                    if ext in DB_EXTS and y is None and is_nan(x):
                        continue                                # NULL is sqlite's NaN (ASSUMPTIONS)
                    why = num_equal(x, y, single)
                    if why:
                        what = 'nan' if is_nan(x) else ('minus-one' if (not isinstance(x, str) and x == -1) else 'numeric')
                        bad = (what, n, why, dict(column_kind='err' if n.startswith('err_') else 'value',
                                                  masked=bool(y is np.ma.masked)))
                if bad:
                    break
            if bad:
                what, n, why, extra = bad
                fails.append((what, f"{KIND[L]} row {pos} (catalogue index {k}) attribute {n}: {why}",
                              dict(extra, kind=KIND[L], row=pos, attr=n)))
                break
    if ext in DB_EXTS:
        con.close()
    return obs


def annotation_wants(ext, by_letter, root_, ext_):
    want = []
    if by_letter['C']:
        want.append((root_ + '_comp' + ext_, len(by_letter['C']), 'ELLIPSE' if ext == 'ann' else 'ellipse'))
    elif by_letter['S']:
        want.append((root_ + '_simp' + ext_, len(by_letter['S']), 'ELLIPSE' if ext == 'ann' else 'ellipse'))
    if by_letter['I'] and ext == 'reg':
        want.append((root_ + '_isle' + ext_, len(by_letter['I']), 'fk5; text('))
    return want


def check_annotations(case, obs, by_letter, root_, ext_, present, fails):
    ext = case['ext']
    want = annotation_wants(ext, by_letter, root_, ext_)
    if sorted(os.path.basename(w[0]) for w in want) != present:
        fails.append(('files', f"annotation files {present}, expected {[os.path.basename(w[0]) for w in want]}", {}))
        return obs
    for path, n, key in want:
        got = sum(1 for line in open(path) if line.lstrip('# ').startswith(key))
        if got != n:
            fails.append(('annotation-count', f"{os.path.basename(path)} has {got} entries for {n} sources", {}))
    return obs


# ---------------------------------------------------------------------------------------------
# model side

def model_lines(case, fn):
    ext = case['ext']
    lines = [f"plan {hexs(fn)}", f"splitext {hexs(fn)}"]
    if ext in ('ann', 'reg'):
        return lines
    writer = 'db' if ext in DB_EXTS else ('fits' if ext == 'fits' else 'table')
    pre = '~' if case['prefix'] is None else hexs(case['prefix'])
    cl = classes()
    toks = []
    for letter, attrs in case['catalog']:
        if letter == 'O':
            toks.append('O:')
        else:
            # an instance of a user subclass is, for the model, an instance of its library base class (`isinstance`;
            # gen_classify_subclasses is the obligation that the code dispatches that way)
            toks.append(letter.upper() + ':' + ','.join(cell_token(attrs[n]) for n in cl[letter.upper()].names))
    lines.append(f"cat {writer} {hexs(fn)} {pre} 0 0 " + ' '.join(toks))
    return lines


def compare_model(ctx, case, obs, outs):
    """outs: driver answers for model_lines(case)"""
    fn = obs['filename']
    ext = case['ext']
    corr = []
    # file-name table
    plan = outs[0].split()
    root_, ext_ = os.path.splitext(fn)
    sp = outs[1].split()
    if len(sp) != 2 or (unhex(sp[0]), unhex(sp[1])) != (root_, ext_):
        corr.append(('splitext', f"os.path.splitext({fn!r}) = {(root_, ext_)!r}, model {outs[1]}"))
    if len(plan) == 5:
        m_ext, m_writer = unhex(plan[0]), plan[1]
        m_names = {L: unhex(plan[2 + i]) for i, L in enumerate('CIS')}
        want_writer = {'db': 'db', 'sqlite': 'db', 'ann': 'ann:' + hexs('ann'), 'reg': 'ann:' + hexs('reg'), 'tex': 'table:' + hexs('latex')}
        ww = want_writer.get(ext, 'table:' + hexs(ext if ext in TABLE_EXTS else 'tab'))
        if m_writer != ww or m_ext != os.path.splitext(fn)[1][1:].lower():
            corr.append(('dispatch', f"model dispatches {m_ext!r} to {m_writer}, expected {ww}"))
    else:
        corr.append(('plan', f"model answered {outs[0][:80]}"))
        m_names = {}
    if ext in ('ann', 'reg') or obs['files'] is None:
        return corr
    ans = outs[2]
    if not ans.startswith('ok '):
        corr.append(('model-rejects', f"implementation wrote {obs['files']}, model says {ans[:60]}"))
        return corr
    parts = ans.split(' ;; ')
    mfiles = []
    for p in parts[1:]:
        w = p.split(' ')
        name, kind, rows, cols, strs = unhex(w[0]), w[1], w[2], w[3], w[4]
        mfiles.append(dict(name=name, kind=kind, rows=[] if rows == '-' else [int(x) for x in rows.split(',')],
                           cols=[] if cols == '-' else [(unhex(c.split(':')[0]), c.split(':')[1]) for c in cols.split(',')],
                           strs={} if strs == '-' else {unhex(s.split('=')[0]): [unhex(x) for x in s.split('=')[1].split('|')]
                                                      for s in strs.split(';')}))
    if ext in DB_EXTS:
        got_tables = [t for t in obs.get('db_tables', []) if t != 'meta']
        if sorted(got_tables) != sorted(m['name'] for m in mfiles):
            corr.append(('db-tables', f"sqlite tables {got_tables}, model {[m['name'] for m in mfiles]}"))
    else:
        got = obs['files']
        mod = sorted(os.path.basename(m['name']) for m in mfiles)
        if got != mod:
            corr.append(('files', f"files written {got}, model {mod}"))
        for m in mfiles:
            L = {'comp': 'C', 'isle': 'I', 'simp': 'S'}[m['kind']]
            if m_names.get(L) != m['name']:
                corr.append(('names', f"plan name {m_names.get(L)!r} vs cat name {m['name']!r}"))
    for m in mfiles:
        L = {'comp': 'C', 'isle': 'I', 'simp': 'S'}[m['kind']]
        o = obs['per_kind'].get(L)
        if not o:
            continue
        want_uuids = [dec(case['catalog'][k][1]['uuid']) for k in m['rows']]
        if 'uuids' in o and o['uuids'] != want_uuids and not any(f[0] == 'uuid' for f in obs['fails']):
            corr.append(('partition', f"{m['kind']}: rows in file (by uuid) differ from the model's partition/order"))
        if o['colnames'] != [c for c, _ in m['cols']]:
            corr.append(('columns', f"{m['kind']}: columns {o['colnames'][:6]}.., model {[c for c, _ in m['cols']][:6]}.."))
        if ext in DB_EXTS and o.get('types') != [t for _, t in m['cols']]:
            corr.append(('db-types', f"{m['kind']}: declared types {o.get('types')}, model {[t for _, t in m['cols']]}"))
        if ext == 'fits':
            if o.get('tform') != [t for _, t in m['cols']]:
                diff = [(c, a, b) for (c, b), a in zip(m['cols'], o.get('tform', [])) if a != b]
                corr.append(('tform', f"{m['kind']}: FITS TFORM differs from the model's decision: {diff[:4]} (column, file, model)"))
            for c, vals in m['strs'].items():
                if o.get('strings', {}).get(c) != vals:
                    corr.append(('fits-strings', f"{m['kind']}: strings stored in column {c} differ from the model"))
    return corr


# ---------------------------------------------------------------------------------------------
# orchestration

def nontrivial_key(case):
    cat = case['catalog']
    if len(cat) < 2:
        return None
    letters = {l.upper() for l, _ in cat if l != 'O'}
    feats = len(letters) >= 2
    lens = {}
    for l, a in cat:
        for n, e in (a or {}).items():
            if e[0] in ('f', 'f32') and common.h2f(e[1]) != common.h2f(e[1]):
                feats = True
            if n.startswith('err_') and e[0] in ('i', 'f') and dec(e) == -1:
                feats = True
            if e[0] == 's':
                lens.setdefault((l, n), set()).add(len(e[1]))
    feats = feats or any(len(v) > 1 for v in lens.values())
    if not feats:
        return None
    return (case['ext'], case['prefix'], case['meta'], digest(cat), digest(case.get('history') or []),
            case.get('container'), bool(case.get('same_mtime')), bool(case.get('debug')))


def summarise(case):
    c = {k: v for k, v in case.items() if k not in ('catalog', '_dir', 'history')}
    if case.get('history'):
        c['history_rows'] = [len(h) for h in case['history']]
    c['rows'] = len(case['catalog'])
    c['types'] = ''.join(sorted({l for l, _ in case['catalog']}))
    return c


def signature(case, what, extra):
    sig = dict(site='catalogs.save_catalog/load_table', what=what, ext=case['ext'], prefix=case['prefix'] is not None,
               second_write=bool(case.get('history')), container=case.get('container') or 'list',
               same_stat_rewrite=bool(case.get('same_mtime')), debug_logging=bool(case.get('debug')),
               subclass_instances=any(l in 'cis' for l, _ in case['catalog']))
    sig.update({k: v for k, v in extra.items() if k not in ('row', 'attr')})
    return sig


def shrink(ctx, case, what, root, budget=40):
    """delta-debug the catalogue rows while the same kind of failure persists"""
    cat = list(case['catalog'])
    counter = [0]
    if case.get('history'):
        def one_per_class(c):
            seen, out = set(), []
            for src in c:
                if src[0] not in seen:
                    seen.add(src[0])
                    out.append(src)
            return out
        small_h = [one_per_class(h) for h in case['history']]
        c = dict(case, history=small_h, _dir=f"shrinkh{ctx.evaluations}")
        if any(f[0] == what for f in real_roundtrip(ctx, c, root)['fails']):
            case = dict(case, history=small_h)
            for k in range(len(small_h)):                       # drop whole earlier writes that are not needed
                h2 = case['history'][:k] + case['history'][k + 1:]
                if len(case['history']) > 1 and k < len(case['history']):
                    c = dict(case, history=h2, _dir=f"shrinkh{ctx.evaluations}_{k}")
                    if any(f[0] == what for f in real_roundtrip(ctx, c, root)['fails']):
                        case = dict(case, history=h2)

    def fails(sub):
        counter[0] += 1
        c = dict(case, catalog=sub, _dir=f"shrink{ctx.evaluations}_{counter[0]}")
        o = real_roundtrip(ctx, c, root)
        return any(f[0] == what for f in o['fails'])

    n = 2
    while len(cat) > 1 and counter[0] < budget:
        chunk = max(1, len(cat) // n)
        reduced = False
        for start in range(0, len(cat), chunk):
            sub = cat[:start] + cat[start + chunk:]
            if sub and counter[0] < budget and fails(sub):
                cat, n, reduced = sub, max(n - 1, 2), True
                break
        if not reduced:
            if chunk == 1:
                break
            n = min(len(cat), n * 2)
    return dict(case, catalog=cat)


def run_cases(ctx, cases, do_shrink=True):
    root = ctx.tmpdir()
    work = []
    lines = []
    for k, case in enumerate(cases):
        case['_dir'] = f"c{ctx.evaluations + k}"
        with debug_logging(case.get('debug')):
            obs = real_roundtrip(ctx, case, root)
        ml = model_lines(case, obs['filename']) if (ctx.driver_ok and not case.get('no_model')) else []
        work.append((case, obs, len(lines), len(ml)))
        lines += ml
    outs = ctx.driver.batch(lines) if (ctx.driver_ok and lines) else []
    for case, obs, start, n in work:
        for what, detail, extra in obs['fails']:
            if what == 'numeric' and obs.get('bytes') is not None:
                extra = dict(extra, file_size=size_class(obs['bytes']))
            dupkey = json.dumps(signature(case, what, extra), sort_keys=True)
            seen = ctx.extra.setdefault('failure_kinds_seen', {})
            if dupkey in seen:                      # same kind of failure already has a (minimised) witness
                seen[dupkey] += 1
                ctx.count('repeat-of-reported-failure')
                continue
            seen[dupkey] = 1
            small = case
            if do_shrink and len(case['catalog']) > 3:
                small = shrink(ctx, case, what, root, budget=40 if len(case['catalog']) <= 400 else 12)
                o2 = real_roundtrip(ctx, dict(small, _dir=case['_dir'] + 'm'), root)
                f2 = [f for f in o2['fails'] if f[0] == what]
                if f2:
                    what, detail, extra = f2[0]
                else:
                    small = case
            rec = {k: v for k, v in small.items() if k != '_dir'}
            ctx.fail('spec', rec, f"{case['ext']}: {detail}", signature(case, what, extra))
        if outs and n:
            for what, detail in compare_model(ctx, case, obs, outs[start:start + n]):
                rec = {k: v for k, v in case.items() if k != '_dir'} if len(case['catalog']) <= 12 else summarise(case)
                ctx.fail('corr', rec, f"{case['ext']}: {detail}", dict(site='model', what=what, ext=case['ext']))
        if case.get('history'):
            ctx.count('history-step')
        if any(l in 'cis' for l, _ in case['catalog']):
            ctx.count('subclass-instances')
        if case.get('container'):
            ctx.count('container:' + case['container'])
        if case.get('debug'):
            ctx.count('debug-logging')
        if obs.get('same_stat_applied'):
            ctx.count('same-size-same-mtime-rewrite', obs['same_stat_applied'])
        if case['ext'] not in ('ann', 'reg') and obs.get('bytes') is not None:
            ctx.count('size:' + size_class(obs['bytes']))
            if case['ext'] in ('csv', 'tab'):
                ctx.count(f"size:{case['ext']}:" + size_class(obs['bytes']))
        if obs.get('stale_siblings'):
            ctx.count('observation:stale-sibling-file-of-earlier-write')
            if not ctx.extra.get('stale_sibling_example'):
                ctx.extra['stale_sibling_example'] = dict(ext=case['ext'], stale=obs['stale_siblings'], written=obs['files'])
        ctx.count(case['ext'])
        ctx.count('rows<=10' if len(case['catalog']) <= 10 else ('rows<=300' if len(case['catalog']) <= 300 else 'rows>300'))
        if case['prefix'] is not None:
            ctx.count('prefix')
        if case['meta']:
            ctx.count('meta')
        ctx.case(summarise(case), nontrivial_key=nontrivial_key(case), sample_every=53)
        # free disk early
        import shutil
        shutil.rmtree(os.path.join(root, case['_dir']), ignore_errors=True)


def S(letter, **kw):
    """hand-written source for the corpus"""
    cl = classes()
    base = {}
    for n in cl[letter.upper()].names:
        if n in INT_FIELDS:
            base[n] = 1
        elif n in ('ra_str',):
            base[n] = '12:34:56.78'
        elif n in ('dec_str',):
            base[n] = '-12:34:56.78'
        elif n == 'uuid':
            base[n] = 'aaaaaaaa-bbbb-4ccc-8ddd-eeeeeeeeeeee'
        elif n.startswith('err_'):
            base[n] = 0.125
        else:
            base[n] = 1.5
    base.update(kw)
    return [letter, {k: enc(v) for k, v in base.items()}]


def corpus_cases():
    """minimised past failures + the DESIGN §6 item 23 witnesses; always run first, in every format"""
    nan = float('nan')
    cats = {
        # DESIGN §6 #23: first row's coordinate strings shorter than a later row's
        'first-row-shorter': [S('C', ra_str='1:2:3.4', dec_str='+1:2:3', island=1), S('C', island=2)],
        # DESIGN §6 #23: empty first string
        'first-row-empty': [S('C', ra_str='', dec_str='', island=1), S('C', island=2)],
        'later-row-empty': [S('C', island=1), S('C', ra_str='', dec_str='', island=2)],
        'all-empty': [S('C', ra_str='', dec_str='', island=1), S('C', ra_str='', dec_str='', island=2)],
        'short-uuid-first': [S('C', uuid='ab', island=1), S('C', island=2), S('I', uuid='c', island=3), S('I', island=4)],
        'nan-and-minus-one': [S('C', peak_flux=nan, err_ra=-1.0, err_dec=-1, island=1),
                              S('C', int_flux=-3.25, err_peak_flux=-1.0, psf_a=nan, island=2)],
        'ints-first': [S('C', peak_flux=2, int_flux=3, err_ra=-1, island=1), S('C', peak_flux=2.5, err_ra=0.25, island=2)],
        'mixed': [S('S', island=0), S('C', island=1), S('I', island=2), S('C', island=3, source=1), ['O', None],
                  S('I', island=4), S('S')],
        # instances of user-defined subclasses of the three source classes, alone and next to base-class instances
        'subclasses': [S('c', island=1, uuid='sub-c1'), S('i', island=2, uuid='sub-i1'), S('s', uuid='sub-s1'),
                       S('C', island=3), S('c', island=4, uuid='sub-c2')],
        'subclasses-only-one-type': [S('i', island=2, uuid='sub-i1'), S('i', island=5, uuid='sub-i2')],
        'single-default-like': [S('C', ra_str='', dec_str='', peak_flux=nan, int_flux=nan, a=nan, b=nan, pa=nan)],
        'extreme': [S('C', peak_flux=1e300, int_flux=-1e-300, a=5e-324, b=float('inf'), island=-7),
                    S('C', peak_flux=-0.0, int_flux=1 / 3, island=2 ** 31 - 1)],
    }
    out = []
    for name, cat in cats.items():
        for ext in ALL_EXTS:
            for prefix in (None, 'pre'):
                if prefix and name not in ('first-row-shorter', 'short-uuid-first', 'nan-and-minus-one', 'mixed', 'subclasses'):
                    continue
                out.append(make_case(None, cat, ext, stem='corpus_' + name.replace('-', '_'), prefix=prefix,
                                     meta_i=2 if prefix else 0))
    for ext in ('ann', 'reg'):
        out.append(make_case(None, cats['mixed'], ext, stem='corpus_mixed'))
        out.append(make_case(None, cats['subclasses'], ext, stem='corpus_subclasses'))
        out.append(make_case(None, [S('S'), S('S', ra=nan)], ext, stem='corpus_simples'))
    # corpus/C18/*.json: further minimised failures recorded by hand
    cdir = os.path.join(common.VERIF, 'corpus', 'C18')
    if os.path.isdir(cdir):
        for f in sorted(os.listdir(cdir)):
            if f.endswith('.json'):
                rec = json.load(open(os.path.join(cdir, f)))
                out.append(rec.get('case', rec))
    return out


def random_cases(ctx, n_cats, max_rows, exts):
    rng = ctx.rng
    cases = []
    for k in range(n_cats):
        r = rng.random()
        nrows = 1 if r < 0.08 else (rng.randint(2, 12) if r < 0.55 else rng.randint(13, max_rows))
        mix = rng.choice(['C', 'C', 'CI', 'CIS', 'CCCIS', 'IS', 'I', 'S', 'CISO', 'CcIiSs', 'cis', 'Cc', 'ciO'])
        profile = dict(atypical=rng.random() < 0.5, empty_str=rng.choice([0, 0, 0.1]), nan=rng.choice([0.0, 0.08, 0.3]),
                       nan_counts=rng.random() < 0.3, pyint=rng.random() < 0.7,
                       f32cols=rng.choice([(), ('background', 'local_rms'), ('background',)]))
        cat = gen_catalogue(rng, nrows, mix, profile)
        for ext in exts:
            if rng.random() < 0.35 and len(exts) > 3:
                continue
            prefix = rng.choice([None, None, 'p', 'my_cat'])
            stem = rng.choice(FILE_STEMS)
            subdir = 'd.ir' if rng.random() < 0.15 else None
            cases.append(make_case(rng, cat, ext, stem=stem, prefix=prefix, meta_i=rng.randrange(len(METAS)),
                                   upper=rng.random() < 0.1, subdir=subdir))
        if rng.random() < 0.25:
            cases.append(make_case(rng, cat, rng.choice(['ann', 'reg']), stem=rng.choice(FILE_STEMS[:3])))
        if rng.random() < 0.1:
            cases.append(make_case(rng, cat, rng.choice(['bla', '']), stem='odd', subdir='d.ir'))
        if rng.random() < 0.2:
            cases.append(make_case(rng, cat, rng.choice(RARE_EXTS), stem='rare', prefix=rng.choice([None, 'p'])))
    return cases


def history_cases(ctx, n_hist, max_rows, exts):
    """successive catalogues written to the SAME base name: larger then smaller, with then without
    islands / simples / components; every step is one case whose 'history' holds the earlier catalogues"""
    rng = ctx.rng
    mixes = [('CIS', 'C'), ('CIS', 'I'), ('CI', 'S'), ('CS', 'CI'), ('IS', 'C'), ('C', 'CIS'), ('CIS', 'CS', 'C'),
             ('CISO', 'IS', 'S'), ('C', 'C'), ('I', 'S', 'C')]
    cases = []
    for k in range(n_hist):
        seq = rng.choice(mixes)
        profile = dict(atypical=rng.random() < 0.4, nan=rng.choice([0.0, 0.08]), pyint=rng.random() < 0.5)
        sizes = sorted((rng.randint(1, max_rows) for _ in seq), reverse=rng.random() < 0.7)
        cats = []
        for mix, n in zip(seq, sizes):
            cat = gen_catalogue(rng, max(n, len(mix)), mix, profile)
            for j, L in enumerate(mix):                       # every class of the mix really occurs
                if L != 'O' and not any(s[0] == L for s in cat):  # exact letter: a subclass letter must occur too
                    cat[j % len(cat)] = rand_source(rng, L, j + 1, profile)
            cats.append(cat)
        for ext in exts:
            prefix = rng.choice([None, None, 'p'])
            meta_i = rng.randrange(len(METAS))
            stem = rng.choice(FILE_STEMS[:4])
            for step in range(1, len(cats)):
                c = make_case(rng, cats[step], ext, stem=stem, prefix=prefix, meta_i=meta_i)
                c['history'] = cats[:step]
                cases.append(c)
    return cases


def corpus_histories():
    """two writes to the same name: the first catalogue holds source types the second lacks"""
    first = [S('C', island=1), S('I', island=2, uuid='i1'), S('I', island=3, uuid='i2'), S('S', uuid='s1')]
    out = []
    for second in ([S('C', island=7, uuid='c7')], [S('S', uuid='s9')], [S('I', island=5, uuid='i5'), S('C', island=6)]):
        for ext in ALL_EXTS + ['sqlite', 'reg']:
            c = make_case(None, second, ext, stem='corpus_rewrite')
            c['history'] = [first]
            out.append(c)
    return out


SIZE_EDGES = [(4 << 10, '<4KiB'), (60 << 10, '4-60KiB'), (72 << 10, '~64KiB'), (900 << 10, '72-900KiB'),
              (1 << 20, '0.9-1MiB'), (1200 << 10, '1-1.17MiB'), (16 << 20, '1.17-16MiB')]


def size_class(nbytes):
    """file SIZE classes: tiny / around the 64 KiB I/O buffer / either side of 1 MiB / > 1 MiB / > 16 MiB"""
    for edge, name in SIZE_EDGES:
        if nbytes < edge:
            return name
    return '>16MiB'


DENSE = dict(atypical=False, nan=0.01, pyint=False, minus_one=0.05, empty_str=0)


def bytes_per_row(ctx, ext):
    """measured on the real writer: bytes of a component file per dense row"""
    from AegeanTools import catalogs as C
    cache = ctx.extra.setdefault('bytes_per_row', {})
    if ext not in cache:
        rng = __import__('random').Random(12345)
        cat = gen_catalogue(rng, 64, 'C', DENSE)
        d = os.path.join(ctx.tmpdir(), 'bpr_' + ext)
        os.makedirs(d, exist_ok=True)
        with warnings.catch_warnings():
            warnings.simplefilter('ignore')
            with np.errstate(all='ignore'):
                C.save_catalog(os.path.join(d, 'm.' + ext), build(cat))
        cache[ext] = max(1, max(os.path.getsize(os.path.join(d, f)) for f in os.listdir(d)) // 64)
    return cache[ext]


def sized_cases(ctx, targets, model_limit=4000):
    """targets: list of (ext, bytes): a dense component catalogue (full-precision doubles, extreme magnitudes,
    few NaN / -1) long enough for the written file to reach that size"""
    cases = []
    for ext, nbytes in targets:
        rows = max(1, int(nbytes / bytes_per_row(ctx, ext)) + 1)
        cat = gen_catalogue(ctx.rng, rows, 'C', DENSE)
        c = make_case(ctx.rng, cat, ext, stem='sized', prefix=None, meta_i=0)
        c['size_target'] = nbytes
        if rows > model_limit:
            c['no_model'] = True          # the partition / typing decisions do not depend on length: Spec only
        cases.append(c)
    return cases


def container_cases(ctx, n_cats, max_rows, exts):
    """mixed catalogues handed over as list / tuple / object array / one-shot iterables"""
    rng = ctx.rng
    cases = []
    for k in range(n_cats):
        cat = gen_catalogue(rng, rng.randint(3, max_rows), 'CIS' if k % 2 == 0 else 'CIScis', dict(atypical=rng.random() < 0.3, nan=0.05))
        for j, L in enumerate('CIS'):
            if not any(s_[0].upper() == L for s_ in cat):
                cat[j] = rand_source(rng, L, j + 1, {})
        for ext in exts:
            for container in CONTAINERS[1:]:
                if k and rng.random() < 0.5:
                    continue
                c = make_case(rng, cat, ext, stem='cont', prefix=rng.choice([None, 'p']))
                c['container'] = container
                cases.append(c)
    return cases


def same_stat_cases(ctx, n_cats, max_rows):
    """write, read back, rewrite the SAME name with a permutation of the rows (identical byte size) and
    the same mtime, read back: what is read must be what was last written"""
    rng = ctx.rng
    cases = []
    for k in range(n_cats):
        cat = gen_catalogue(rng, rng.randint(4, max_rows), 'CIS' if k == 0 else rng.choice(['C', 'CIS']), dict(nan=0.03))
        second = list(reversed(cat))
        for ext in ['csv', 'tab', 'tex', 'vot', 'xml', 'fits']:
            c = make_case(rng, second, ext, stem='samestat', prefix=None)
            c['history'] = [cat]
            c['read_between'] = True
            c['same_mtime'] = True
            cases.append(c)
    return cases


def debug_cases():
    out = []
    for c in corpus_cases() + corpus_histories():
        if c['stem'] in ('corpus_mixed', 'corpus_nan_and_minus_one', 'corpus_rewrite', 'corpus_simples'):
            out.append(dict(c, debug=True))
    return out


def check_hypotheses(ctx):
    """the hypotheses the theorems name, checked on the real classes"""
    cl = classes()
    for L, c in cl.items():
        s = c()
        for n in c.names:
            v = getattr(s, n)
            if n in ('ra_str', 'dec_str'):
                ok = v == ''
            elif n in INT_FIELDS or n == 'uuid':
                continue
            else:
                ok = isinstance(v, float) and v != v
            if not ok:
                ctx.fail('corr', dict(cls=L, attr=n), f"class default of {n} is {v!r}: hypothesis of "
                         "roundtrip_with_masking_partial (float default NaN, string default '') does not hold",
                         dict(site='model', what='default-hypothesis'))
    if float(np.float32(-1.0)) != -1.0:
        ctx.fail('corr', {}, "float32(-1) != -1", dict(site='model', what='single-hypothesis'))
    if ctx.driver_ok:
        xs = [-1.0, 0.1, 1e300, 1e-300, 16777217.0, 1 / 3, -0.0, 3.5e38]
        outs = ctx.driver.batch([f"single {common.f2h(x)}" for x in xs])
        for x, o in zip(xs, outs):
            with np.errstate(all='ignore'):
                want = float(np.float32(x))
            if common.f2h(want) != o:
                ctx.fail('corr', dict(x=common.f2h(x)), f"single({x}) model {o} numpy {common.f2h(want)}",
                         dict(site='model', what='single'))
    names_model = dict(C=len(cl['C'].names), I=len(cl['I'].names), S=len(cl['S'].names))
    ctx.extra['names_lengths'] = names_model


def check_generated(ctx):
    """translator self-validation: the regenerated tables (driver ops `gen …`) against the Python slices they were
    translated from, on the full grid of tags, and against the real classify_catalog"""
    if not ctx.driver_ok:
        return
    import importlib.util
    import sys
    sys.path.insert(0, os.path.join(common.VERIF, 'translator'))
    try:
        spec = importlib.util.spec_from_file_location('targets_C18_probe', os.path.join(common.VERIF, 'translator', 'targets', 'C18.py'))
        tmod = importlib.util.module_from_spec(spec)
        spec.loader.exec_module(tmod)
        text = open(tmod.SLICE_FILE).read()
    except Exception as e:
        ctx.note(f"slices unavailable for self-validation: {e!r}")
        return
    ctx.extra['slice_file_sha'] = os.path.basename(tmod.SLICE_FILE)
    status = ctx.extra.get('translator') or {}
    ns = {}
    try:
        exec(text.replace('    return letter\n', '    return (letter, width)\n'), ns)
    except Exception as e:
        ctx.note(f"slices do not execute: {e!r}")
        return
    lines, want = [], []
    if status.get('fitsLetter') == 'translated' and status.get('fitsWidth') == 'translated':
        for is_err in (0, 1):
            for is_uuid in (0, 1):
                for kind in range(7):
                    for maxlen in (0, 1, 7, 36):
                        for t in range(5):
                            for vlen in (0, 3, 11):
                                lines.append(f"gen fits {is_err} {is_uuid} {kind} {maxlen} {t} {vlen}")
                                a, b = ns['fits_col'](is_err, is_uuid, kind, maxlen, t, vlen)
                                want.append(f"{a} {b}")
    if status.get('sqlCode') == 'translated':
        for t in range(6):
            lines.append(f"gen sql {t}")
            want.append(str(ns['sql_type'](t)))
    if status.get('classifyWhich') == 'translated':
        for c in range(9):
            lines.append(f"gen cls {c}")
            want.append(str(ns['classify_which'](c)))
    outs = ctx.driver.batch(lines)
    bad = [(l, o, w) for l, o, w in zip(lines, outs, want) if o != w]
    ctx.count('generated-table-entries-validated', len(lines) - len(bad))
    for l, o, w in bad[:3]:
        ctx.fail('corr', dict(op=l), f"translator self-validation: `{l}` Lean {o}, Python slice {w}",
                 dict(site='translator', what='self-validation'))
    # the regenerated classify table against the real function on one object of every class
    from AegeanTools.models import classify_catalog
    cl = classes()
    sub = subclasses()
    objs = {0: object(), 1: cl['S'](), 2: cl['I'](), 3: cl['C'](), 4: sub['s'](), 5: sub['i'](), 6: sub['c']()}
    outs = ctx.driver.batch([f"gen cls {c}" for c in objs])
    for (c, o), ans in zip(objs.items(), outs):
        got = [k + 1 for k, lst in enumerate(classify_catalog([o])) if len(lst)]
        real = got[0] if len(got) == 1 else 0
        if str(real) != ans or len(got) > 1:
            ctx.fail('corr', dict(cls=c), f"classify_catalog puts class code {c} into list(s) {got}, regenerated table says {ans}",
                     dict(site='model', what='classify-table'))


def process_prologue(ctx):
    """the process's FIRST catalogue writes are in galactic coordinates (sources flagged `galactic`, as the finder
    flags them for a GLON/GLAT image): anything the writer remembers per class / per process from its first call
    then differs from what the ordinary catalogues judged afterwards need (round 9: column names cached per class).
    The galactic files themselves are not judged here."""
    from AegeanTools import catalogs as C
    if ctx.extra.get('prologue_done'):
        return
    ctx.extra['prologue_done'] = True
    d = os.path.join(ctx.tmpdir(), 'prologue')
    os.makedirs(d, exist_ok=True)
    spec = [S('C', island=1), S('I', island=2, uuid='gi'), S('S', uuid='gs')]
    for ext in ('csv', 'vot', 'fits', 'db'):
        for prefix in (None, 'g'):
            try:
                cat = build(spec)
                for src in cat:
                    src.galactic = True
                with warnings.catch_warnings():
                    warnings.simplefilter('ignore')
                    with np.errstate(all='ignore'):
                        C.save_catalog(os.path.join(d, 'gal.' + ext), cat, meta=None, prefix=prefix)
            except Exception:
                pass
    ctx.count('process-prologue:galactic-write-first')


def run(ctx):
    common.use_repo()
    process_prologue(ctx)
    check_hypotheses(ctx)
    check_generated(ctx)
    run_cases(ctx, corpus_cases())
    run_cases(ctx, corpus_histories())
    run_cases(ctx, debug_cases())
    run_cases(ctx, container_cases(ctx, 2 if ctx.quick else 6, 12 if ctx.quick else 60,
                                   ['csv', 'fits', 'db', 'vot', 'reg'] if ctx.quick else ALL_EXTS + ['reg', 'ann']))
    run_cases(ctx, same_stat_cases(ctx, 2 if ctx.quick else 12, 10 if ctx.quick else 80))
    if ctx.quick:
        run_cases(ctx, random_cases(ctx, 26, 300, ALL_EXTS))
        run_cases(ctx, history_cases(ctx, 5, 40, ALL_EXTS))
        MiB = 1 << 20
        run_cases(ctx, sized_cases(ctx, [('csv', 66 << 10), ('csv', int(0.95 * MiB)), ('csv', int(1.3 * MiB)),
                                         ('tab', int(0.95 * MiB)), ('tab', int(1.3 * MiB))]))
    else:
        run_cases(ctx, random_cases(ctx, 130, 600, ALL_EXTS))
        run_cases(ctx, history_cases(ctx, 30, 200, ALL_EXTS + ['sqlite']))
        MiB = 1 << 20
        tg = [(e, sz) for e in ('csv', 'tab', 'tex') for sz in (2 << 10, 66 << 10, int(0.95 * MiB), int(1.05 * MiB),
                                                                 int(1.3 * MiB), int(2.5 * MiB))]
        tg += [(e, int(1.3 * MiB)) for e in ('vot', 'xml', 'fits', 'db')]
        tg += [('csv', 17 * MiB), ('tab', 17 * MiB)]
        run_cases(ctx, sized_cases(ctx, tg))
        # a few big catalogues, every format
        big = []
        for nrows, mix in ((1000, 'CCIS'), (2000, 'C'), (3000, 'CCIS')):
            cat = gen_catalogue(ctx.rng, nrows, mix, dict(atypical=True, nan=0.05, f32cols=('background',)))
            for ext in ALL_EXTS:
                big.append(make_case(ctx.rng, cat, ext, prefix=ctx.rng.choice([None, 'big'])))
        run_cases(ctx, big)


def search(ctx):
    """proof or correspondence broke and no Spec failure yet: wider sweep, implementation vs Spec only"""
    common.use_repo()
    process_prologue(ctx)
    if any(f['kind'] == 'spec' for f in ctx.failures):
        return
    saved = ctx.driver_ok
    ctx.driver_ok = False
    try:
        for rounds in range(3):
            run_cases(ctx, random_cases(ctx, 40, 120, ALL_EXTS))
            run_cases(ctx, history_cases(ctx, 8, 30, ALL_EXTS))
            if any(f['kind'] == 'spec' for f in ctx.failures):
                break
    finally:
        ctx.driver_ok = saved


def replay(ctx, rec):
    common.use_repo()
    process_prologue(ctx)
    case = dict(rec['case'])
    if 'catalog' not in case:
        ctx.note("replay record holds only a summary (large correspondence case); nothing to re-run")
        return
    run_cases(ctx, [case], do_shrink=False)
