"""
C17 — correspondence + Spec checks + search for AegeanTools/angle_tools.py
        gcd, bear, translate, dec2dms, dec2hms, dec2dec, ra2dec.

Three kinds of comparison are made on every case:

 (S) Spec on the IMPLEMENTATION's own outputs (failures are kind 'spec' → VIOLATION with a replay):
     * gcd: 0 <= g <= 180; symmetric; 0 for identical points and > 0 for distinct ones; triangle
       inequality on triples (incl. collinear ones, where it is tight); agreement to 1e-9 deg with an
       independent vector formula  atan2(|v1 x v2|, v1.v2)  evaluated in 50-digit decimal arithmetic on
       the exact values of the doubles (reference supports the search only; it is not part of a proof);
     * bear: agreement (mod 360) with the position angle  atan2(v2.East1, v2.North1)  from the same
       high-precision reference, with a tolerance that grows like 1/sin(separation) (the bearing of a
       point 1e-9 deg away is not defined to 1e-9 deg by double inputs);
     * translate: reference distance start -> result is r, reference position angle is theta (mod 360);
     * scalar and array calls agree element-wise; integer-typed arrays, Python ints, 0-d arrays, numpy scalar types
       and mixed scalar/array broadcasting give the float64 answer; no argument array is modified;
     * exact coincidences: pairs solved (bisection + ulp stepping on ra2) so that gcd's haversine intermediate `a`
       EQUALS each constant the source compares it with, judged like every other pair;
     * environment: dec2dms/dec2hms print the same strings under TZ=AWST-8, IST-5:30, EST5, NST3:30 (time.tzset,
       restored afterwards) as in the default environment;
     * vector slices: arrays in which valid pairs (always including a near-antipodal and a sub-arcsecond one) share the
       call with rows holding NaN/inf coordinates: every valid row gets the scalar answer (gcd: the vector formula to
       1e-9 deg); zero-length arrays give zero-length results;
     * call HISTORIES: the same ndarray objects re-used across calls with their contents changed in place (each
       argument in turn) give, at every call, the answer fresh arrays with the same values give;
     * dec2dms / dec2hms: output matches the format, minutes < 60, seconds < 60, hours < 24,
       degrees <= 90 (and 90 only with 00:00.00), 'XX:XX:XX.XX' for non-finite input;
       dec2dec(dec2dms(x)) and ra2dec(dec2hms(x)) (mod 360) are within half a unit of the last printed
       digit of x; every documented spelling of the printed string (blanks or tabs for the colons, leading
       and trailing blanks/tabs, right-justified cell) parses to the identical number;
     * dec2dec / ra2dec on free-form field strings (sign '+', '-' or none, '-0'/'-00' degree or hour fields,
       2 or 3 fields, any of ':' ' ' tab as separator, leading/trailing white space) return the exact
       sexagesimal value, the sign being that of the first field's first character.
 (C) Correspondence with the Lean model run by the driver at Float (failures are kind 'corr'):
     Gen.C17.{havA,gcdNear,gcdFar,gcdSelect,bear,translateRa,translateDec,dec2decPos,dec2decNeg,ra2decScale,dmsScaled,
     hmsScaled,hmsWrapZ,dmsD,…} are the
     definitions regenerated from the source under test; this is the translator's validation.
     For the formatters the model input is n = round(|x|*360000) (resp. round(x*24000)), computed here
     in exact rational arithmetic; inputs closer than TIE_BAND to a rounding tie are not compared.  The whole
     formatters are also run as GLUE over the regenerated pieces (driver op fmtx: non-finite guard, regenerated
     scaled quantity, int(round(.)), regenerated wrap and fields, sign, format) directly on the double x.
 (P) The Lean Float model of the PINNED formatters (negation witness) is compared with a verbatim Python
     copy of the pinned code kept in this file.
"""
import math
import re
from decimal import Decimal, getcontext
from fractions import Fraction

import numpy as np

import common

LEVEL = 'proof'
LEANCHECKER = True
RULE = ("sphere cases are coordinate pairs / triples / (point, r, theta) drawn from named regimes (random, pole, both "
        "poles, RA wrap, separation decades 1e-9..180 deg, near-antipodal 180-1e-2..180-1e-12, identical, collinear "
        "triples); a sphere case is non-trivial when its regime is not 'random' or its separation is < 1e-3 or > 179 deg; "
        "sexagesimal cases are angles; non-trivial = within 1e-6 deg of a value where a printed field carries "
        "(seconds/minutes/degrees/hours roll over) or negative/wrapping RA or a non-finite value or a malformed "
        "string; every call history (same ndarray objects re-used with in-place updates) and every type/broadcast case "
        "is non-trivial; parser strings are non-trivial when they carry a sign, a zero degrees/hours field or leading white "
        "space; distinct by (function, exact input)")
ASSUMPTIONS = [
    "IEEE-754 rounding inside numpy's sin/cos/arcsin/arctan2/sqrt is not modelled: theorems are over the reals; the "
    "1e-9 deg agreement clause is decided by sampling against a 50-digit reference",
    "Python's str.format ('{:02d}', '{:05.2f}'), str.split and float() are modelled by Model.C17.pad2/fmtSec/tokens/"
    "parseNum and tied to the code only by this sampled correspondence (exact string equality)",
    "the rounding step n = int(round(x*360000)) (resp. x*24000) is a hypothesis |x*c - n| <= 1/2 of the theorems; the "
    "harness recomputes n in exact rational arithmetic and excludes inputs within 1e-6 of a tie",
    "the selection np.where(a > 0.5, far, sep) of gcd is regenerated at Float (Gen.C17.gcdSelect; gcd_select_total: for every "
    "double a the result is one of the two branch values); the metric theorems over the reals cover both branches",
]
TRUSTED = ["Gen.C17.* regenerated from angle_tools.py by py2lean.py (real mode: gcd, bear, translate, dec2dec, ra2dec; "
           "int mode: field arithmetic of dec2dms/dec2hms)",
           "Mathlib: InnerProductGeometry.angle, angle_le_angle_add_angle, Complex.arg, Real.arcsin/arccos"]
PARTIAL = []

TIE_BAND = 1e-6          # in units of the last printed digit
TOL_VEC = 1e-9           # degrees: the property's agreement clause

# ---------------------------------------------------------------------------------------------
# high-precision reference (decimal, 50 digits)
# ---------------------------------------------------------------------------------------------
getcontext().prec = 50
PI = Decimal('3.14159265358979323846264338327950288419716939937510582097494459230781640628620899')
_EPS = Decimal(10) ** -48


def dsincos(x):
    k = int((x / (PI / 2)).to_integral_value())
    y = x - k * (PI / 2)
    y2 = y * y
    s = t = y
    n = 1
    while abs(t) > _EPS:
        t = -t * y2 / ((n + 1) * (n + 2))
        s += t
        n += 2
    c = t = Decimal(1)
    n = 0
    while abs(t) > _EPS:
        t = -t * y2 / ((n + 1) * (n + 2))
        c += t
        n += 2
    k %= 4
    if k == 0:
        return s, c
    if k == 1:
        return c, -s
    if k == 2:
        return -s, -c
    return -c, s


def drad(xdeg):
    return Decimal(float(xdeg)) * PI / 180


def dvec(ra, dec):
    sr, cr = dsincos(drad(ra))
    sd, cd = dsincos(drad(dec))
    return (cd * cr, cd * sr, sd), (sr, cr, sd, cd)


def datan2(y, x):
    if y == 0 and x == 0:
        return Decimal(0)
    th = Decimal(math.atan2(float(y), float(x)))
    for _ in range(3):
        s, c = dsincos(th)
        th = th - (s * x - c * y) / (c * x + s * y)
    return th


def ref_gcd_pa(ra1, dec1, ra2, dec2):
    """(distance, position angle, sin(distance)) of point 2 seen from point 1, degrees, Decimal"""
    a, (sr1, cr1, sd1, cd1) = dvec(ra1, dec1)
    b, _ = dvec(ra2, dec2)
    dot = sum(p * q for p, q in zip(a, b))
    cr = (a[1] * b[2] - a[2] * b[1], a[2] * b[0] - a[0] * b[2], a[0] * b[1] - a[1] * b[0])
    n = sum(p * p for p in cr).sqrt()
    dist = datan2(n, dot) * 180 / PI
    east = (-sr1, cr1, Decimal(0))
    north = (-sd1 * cr1, -sd1 * sr1, cd1)
    ye = sum(p * q for p, q in zip(b, east))
    xn = sum(p * q for p, q in zip(b, north))
    pa = datan2(ye, xn) * 180 / PI
    return dist, pa, n


def angdiff(a, b):
    """|a - b| modulo 360, in [0, 180]"""
    d = (Decimal(a) - Decimal(b)) % 360
    return float(min(d, 360 - d))


# ---------------------------------------------------------------------------------------------
# verbatim copies of the PINNED formatters (for validating the Lean Float model of the defect)
# ---------------------------------------------------------------------------------------------
def pinned_dec2dms(x):
    sign = '-' if x < 0 else '+'
    x = abs(x)
    d = int(math.floor(x))
    m = int(math.floor((x - d) * 60))
    s = float(((x - d) * 60 - m) * 60)
    return '{0}{1:02d}:{2:02d}:{3:05.2f}'.format(sign, d, m, s), s


def pinned_dec2hms(x):
    if x < 0:
        x += 360
    x /= 15.0
    h = int(x)
    x = (x - h) * 60
    m = int(x)
    s = (x - m) * 60
    return '{0:02d}:{1:02d}:{2:05.2f}'.format(h, m, s), s


# ---------------------------------------------------------------------------------------------
# generators
# ---------------------------------------------------------------------------------------------
def _move(ra, dec, r, t):
    """independent (vector) construction of the point at distance r, bearing t; plain floats"""
    ra_, dec_, r_, t_ = map(math.radians, (ra, dec, r, t))
    v = (math.cos(dec_) * math.cos(ra_), math.cos(dec_) * math.sin(ra_), math.sin(dec_))
    e = (-math.sin(ra_), math.cos(ra_), 0.0)
    n = (-math.sin(dec_) * math.cos(ra_), -math.sin(dec_) * math.sin(ra_), math.cos(dec_))
    w = [math.cos(r_) * v[i] + math.sin(r_) * (math.cos(t_) * n[i] + math.sin(t_) * e[i]) for i in range(3)]
    return math.degrees(math.atan2(w[1], w[0])) % 360.0, math.degrees(math.atan2(w[2], math.hypot(w[0], w[1])))


def rand_point(rng):
    k = rng.random()
    if k < 0.08:
        return rng.uniform(0, 360), rng.choice([90.0, -90.0])
    if k < 0.16:
        return rng.choice([0.0, 360.0 - 1e-9 * rng.random(), 1e-9 * rng.random(), 359.9999, 180.0]), rng.uniform(-90, 90)
    if k < 0.24:
        return rng.uniform(0, 360), rng.choice([1, -1]) * (90 - 10 ** rng.uniform(-9, 0))
    if k < 0.30:
        return float(rng.randint(0, 359)), float(rng.randint(-90, 90))
    return rng.uniform(0, 360), math.degrees(math.asin(rng.uniform(-1, 1)))


def sep_regimes():
    out = [('sep1e%+d' % e, 10.0 ** e) for e in range(-9, 2)]
    out += [('sep%g' % s, float(s)) for s in (30, 60, 89.999999, 90, 90.000001, 120, 150, 170, 179)]
    out += [('anti1e%+d' % e, 180.0 - 10.0 ** e) for e in range(-2, -13, -2)]
    out += [('anti0', 180.0), ('same', 0.0)]
    return out


def gen_pairs(rng, n):
    """list of (regime, ra1, dec1, ra2, dec2)"""
    regs = sep_regimes()
    out = []
    for k in range(n):
        ra, dec = rand_point(rng)
        u = rng.random()
        if u < 0.55:
            name, sep = regs[k % len(regs)]
            if rng.random() < 0.3 and not name.startswith('same'):
                sep *= rng.uniform(0.5, 1.0) if sep < 90 else 1.0
            if name == 'same':
                ra2, dec2 = ra, dec
            else:
                ra2, dec2 = _move(ra, dec, sep, rng.uniform(0, 360))
            if rng.random() < 0.25:
                ra2 += rng.choice([360.0, -360.0])          # RA wrap: same point, other branch
                name += '+wrap'
            out.append((name, ra, dec, ra2, dec2))
        elif u < 0.65:
            out.append(('poles', ra, rng.choice([90.0, -90.0]), rng.uniform(0, 360), rng.choice([90.0, -90.0])))
        elif u < 0.75:
            d = 10 ** rng.uniform(-9, -1)
            out.append(('wrap', 360.0 - d * rng.random(), dec, d * rng.random(), max(-90.0, min(90.0, dec + d * rng.uniform(-1, 1)))))
        elif u < 0.80:
            out.append(('antipode-exact', ra, dec, ra + 180.0, -dec))
        else:
            ra2, dec2 = rand_point(rng)
            out.append(('random', ra, dec, ra2, dec2))
    return out


def gen_triples(rng, n):
    out = []
    for k in range(n):
        ra, dec = rand_point(rng)
        if k % 2 == 0:       # collinear: equality case of the triangle inequality
            t = rng.uniform(0, 360)
            s1 = 10 ** rng.uniform(-6, 2) if rng.random() < 0.7 else rng.uniform(0, 90)
            s1 = min(s1, 89.0)
            s2 = min(10 ** rng.uniform(-6, 2), 89.0)
            p2 = _move(ra, dec, s1, t)
            p3 = _move(ra, dec, s1 + s2, t)
            out.append(('collinear', (ra, dec), p2, p3))
        else:
            out.append(('random', (ra, dec), rand_point(rng), rand_point(rng)))
    return out


def gen_translate(rng, n):
    out = []
    for k in range(n):
        ra, dec = rand_point(rng)
        u = rng.random()
        if u < 0.35:
            r = 10 ** rng.uniform(-9, 2.2553)       # up to 180
            r = min(r, 180.0)
        elif u < 0.5:
            r = 180.0 - 10 ** rng.uniform(-9, 0)
        elif u < 0.6:
            r = rng.choice([0.0, 90.0, 180.0, 1.0, 45.0])
        else:
            r = rng.uniform(0, 180)
        t = rng.choice([0.0, 90.0, 180.0, 270.0, 360.0 - 1e-9]) if rng.random() < 0.15 else rng.uniform(0, 360)
        if rng.random() < 0.1:     # aim at a pole
            r, t = (90.0 - dec, 0.0) if rng.random() < 0.5 else (90.0 + dec, 180.0)
            r += rng.choice([0.0, 1e-9, -1e-9, 1e-6]) if 0 < r < 180 else 0.0
            r = max(0.0, min(180.0, r))
        out.append((ra, dec, r, t))
    return out


CARRY_DEG = 1e-6


def gen_dms(rng, n):
    out = [0.0, -0.0, 90.0, -90.0, 10.9999999, -10.9999999, 89.9999999, -89.9999999, 0.9999999, 59.99999999,
           1e-9, -1e-9, 0.0166666666, 12.0, -45.5, 0.12345, -0.12345, 80.0]
    while len(out) < n:
        u = rng.random()
        if u < 0.45:      # just below / above a carry of the seconds (whole minute), minute (whole degree)
            base = rng.randint(0, 89) + rng.choice([0, rng.randint(0, 59)]) / 60.0 + rng.choice([0, 0, rng.randint(0, 59)]) / 3600.0
            d = 10 ** rng.uniform(-12, -6.3)
            x = base + rng.choice([-d, d, -d, 0.0])
            x = min(90.0, abs(x)) * rng.choice([1, -1])
        elif u < 0.55:    # near a half unit of the last digit (ties): kept, excluded from (C) by TIE_BAND
            x = (rng.randint(0, 32399999) + 0.5) / 360000.0 + rng.choice([0, 1e-12, -1e-12])
            x *= rng.choice([1, -1])
        elif u < 0.65:
            x = rng.randint(-32400000, 32400000) / 360000.0
        else:
            x = rng.uniform(-90, 90)
        out.append(x)
    return out


def gen_hms(rng, n):
    out = [0.0, 15.0, -15.0, 23.5678, 359.9999999, 14.9999999, 359.99999999999, -1e-20, -1e-9, 360.0 - 1e-7,
           0.2499999999, 179.9999999, 345.0, 1e-9, 720.5, -359.9999999, 360.0]
    while len(out) < n:
        u = rng.random()
        if u < 0.45:
            base = 15.0 * (rng.randint(0, 24) + rng.choice([0, rng.randint(0, 59)]) / 60.0 + rng.choice([0, 0, rng.randint(0, 59)]) / 3600.0)
            d = 10 ** rng.uniform(-12, -5.3)
            x = base + rng.choice([-d, d, -d, 0.0])
        elif u < 0.55:
            x = (rng.randint(0, 8639999) + 0.5) / 24000.0 + rng.choice([0, 1e-12, -1e-12])
        elif u < 0.65:
            x = rng.randint(0, 8640000) / 24000.0
        elif u < 0.75:
            x = rng.uniform(-360, 0)
        else:
            x = rng.uniform(0, 360)
        out.append(x)
    return out


# ---------------------------------------------------------------------------------------------
# sphere: judges
# ---------------------------------------------------------------------------------------------
def _at():
    from AegeanTools import angle_tools
    return angle_tools


def regime_of_sep(sep):
    if sep == 0:
        return 'zero'
    if sep < 1e-6:
        return 'near-zero'
    if sep > 179.999:
        return 'near-antipodal'
    return 'mid'


def judge_pairs(ctx, pairs, model=True):
    at = _at()
    f2h, h2f = common.f2h, common.h2f
    A = np.array([[p[1], p[2], p[3], p[4]] for p in pairs], dtype=float)
    try:
        g_arr = np.asarray(at.gcd(A[:, 0], A[:, 1], A[:, 2], A[:, 3]), dtype=float)
        b_arr = np.asarray(at.bear(A[:, 0], A[:, 1], A[:, 2], A[:, 3]), dtype=float)
    except Exception as e:
        ctx.fail('spec', dict(kind='pair-array', n=len(pairs)), f"array call raised {type(e).__name__}: {e}",
                 dict(site='gcd', what='raises'))
        g_arr = b_arr = None
    outs = None
    if model and ctx.driver_ok:
        lines = []
        for (_, a, b, c, d) in pairs:
            args = " ".join(f2h(v) for v in (a, b, c, d))
            lines += ["gcd " + args, "bear " + args, "vec " + args]
        outs = ctx.driver.batch(lines)
    for k, (regime, ra1, dec1, ra2, dec2) in enumerate(pairs):
        case = dict(kind='pair', regime=regime, ra1=ra1, dec1=dec1, ra2=ra2, dec2=dec2)
        try:
            g = float(at.gcd(ra1, dec1, ra2, dec2))
            grev = float(at.gcd(ra2, dec2, ra1, dec1))
            b = float(at.bear(ra1, dec1, ra2, dec2))
        except Exception as e:
            ctx.fail('spec', case, f"scalar call raised {type(e).__name__}: {e}", dict(site='gcd', what='raises'))
            ctx.case(case)
            continue
        if not (math.isfinite(g) and math.isfinite(grev) and math.isfinite(b)):
            ctx.fail('spec', case, f"gcd/bear returned a non-finite value: gcd={g!r}, reversed={grev!r}, bear={b!r}",
                     dict(site='gcd', what='non-finite'))
            ctx.case(case, nontrivial_key=('pair', ra1, dec1, ra2, dec2))
            continue
        rd, rpa, rsin = ref_gcd_pa(ra1, dec1, ra2, dec2)
        rdf = float(rd)
        sreg = regime_of_sep(rdf)
        case.update(gcd=g, bear=b, ref_gcd=rdf, ref_pa=float(rpa))
        sig = dict(site='gcd', regime=sreg)
        # --- Spec: metric laws and the vector formula ---
        if not (0.0 <= g <= 180.0):
            ctx.fail('spec', case, f"gcd={g!r} outside [0,180]", dict(sig, what='range'))
        if abs(g - grev) > 1e-10:
            ctx.fail('spec', case, f"gcd not symmetric: {g!r} vs {grev!r}", dict(sig, what='symmetry'))
        same = (ra1 == ra2 and dec1 == dec2)
        if same and g != 0.0:
            ctx.fail('spec', case, f"gcd(p,p)={g!r} != 0", dict(sig, what='identity'))
        if rdf >= 1e-9 and not g > 0.0:
            ctx.fail('spec', case, f"gcd={g!r} for distinct points {rdf:.3e} deg apart", dict(sig, what='zero-only-identical'))
        err = abs(Decimal(g) - rd)
        if err > Decimal(TOL_VEC):
            ctx.fail('spec', case, f"gcd={g!r} differs from the vector formula {rdf!r} by {float(err):.3e} deg (> 1e-9)",
                     dict(sig, what='vector-agreement'))
        # --- Spec: bearing = position angle (conditioned tolerance) ---
        sn = float(rsin)
        if sn > 1e-12:
            tolb = 1e-9 + 2e-13 / sn
            eb = angdiff(b, rpa)
            if eb > tolb:
                ctx.fail('spec', case, f"bear={b!r} differs from the position angle {float(rpa)!r} by {eb:.3e} deg (tol {tolb:.2e})",
                         dict(site='bear', what='position-angle', regime=sreg))
            if not (-180.0 <= b <= 180.0):
                ctx.fail('spec', case, f"bear={b!r} outside [-180,180]", dict(site='bear', what='range'))
        else:
            tolb = None
            ctx.count('bear-undefined(identical/antipodal)')
        # --- Spec: scalar vs array ---
        if g_arr is not None:
            if not common.close(g, float(g_arr[k]), rel=0, abs_=1e-10):
                ctx.fail('spec', case, f"gcd scalar {g!r} vs array {float(g_arr[k])!r}", dict(sig, what='scalar-vs-array'))
            if tolb is not None and angdiff(b, float(b_arr[k])) > tolb:
                ctx.fail('spec', case, f"bear scalar {b!r} vs array {float(b_arr[k])!r}", dict(site='bear', what='scalar-vs-array'))
        # --- Correspondence: regenerated Lean definitions at Float ---
        if outs is not None:
            mg = [h2f(w) for w in outs[3 * k].split()]
            mb = h2f(outs[3 * k + 1])
            mv = [h2f(w) for w in outs[3 * k + 2].split()]
            if not common.close(g, mg[0], rel=0, abs_=1e-10):
                ctx.fail('corr', case, f"gcd impl {g!r} vs regenerated model {mg[0]!r} (a={mg[1]!r}, near={mg[2]!r}, far={mg[3]!r})",
                         dict(site='gcd', what='model'))
            if tolb is not None and angdiff(b, mb) > tolb:
                ctx.fail('corr', case, f"bear impl {b!r} vs regenerated model {mb!r}", dict(site='bear', what='model'))
            # the Lean vector-formula model against the decimal reference (guards the reference itself)
            if abs(Decimal(mv[0]) - rd) > Decimal(1e-9) + Decimal(2e-14) / Decimal(max(sn, 1e-9)) and sn > 1e-7:
                ctx.fail('corr', case, f"Lean gcdVec {mv[0]!r} vs decimal reference {rdf!r}", dict(site='reference', what='gcdVec'))
        nt = None
        if not regime.startswith('random') or rdf < 1e-3 or rdf > 179:
            nt = ('pair', ra1, dec1, ra2, dec2)
        ctx.count('pair:' + re.sub(r'[-+]?\d+(\.\d+)?$', '', regime.split('+')[0]) + ('+wrap' if '+wrap' in regime else ''))
        ctx.case(case, nontrivial_key=nt, sample_every=499)


def judge_triples(ctx, triples):
    at = _at()
    for (regime, p1, p2, p3) in triples:
        case = dict(kind='triple', regime=regime, p1=list(p1), p2=list(p2), p3=list(p3))
        g12 = float(at.gcd(p1[0], p1[1], p2[0], p2[1]))
        g23 = float(at.gcd(p2[0], p2[1], p3[0], p3[1]))
        g13 = float(at.gcd(p1[0], p1[1], p3[0], p3[1]))
        case.update(g12=g12, g23=g23, g13=g13)
        if g13 > g12 + g23 + 1e-9:
            ctx.fail('spec', case, f"triangle inequality fails: {g13!r} > {g12!r} + {g23!r} (excess {g13 - g12 - g23:.3e})",
                     dict(site='gcd', what='triangle'))
        ctx.count('triple:' + regime)
        ctx.case(case, nontrivial_key=('triple', tuple(p1), tuple(p2), tuple(p3)) if regime != 'random' else None,
                 sample_every=499)


def judge_translate(ctx, items, model=True):
    at = _at()
    f2h, h2f = common.f2h, common.h2f
    A = np.array(items, dtype=float)
    try:
        ra_arr, dec_arr = at.translate(A[:, 0], A[:, 1], A[:, 2], A[:, 3])
        ra_arr, dec_arr = np.asarray(ra_arr, dtype=float), np.asarray(dec_arr, dtype=float)
    except Exception as e:
        ctx.fail('spec', dict(kind='translate-array'), f"array call raised {type(e).__name__}: {e}", dict(site='translate', what='raises'))
        ra_arr = dec_arr = None
    outs = None
    if model and ctx.driver_ok:
        outs = ctx.driver.batch(["tra " + " ".join(f2h(v) for v in it) for it in items])
    for k, (ra, dec, r, t) in enumerate(items):
        case = dict(kind='translate', ra=ra, dec=dec, r=r, theta=t)
        try:
            ra2, dec2 = at.translate(ra, dec, r, t)
            ra2, dec2 = float(ra2), float(dec2)
        except Exception as e:
            ctx.fail('spec', case, f"translate raised {type(e).__name__}: {e}", dict(site='translate', what='raises'))
            ctx.case(case)
            continue
        case.update(ra_out=ra2, dec_out=dec2)
        if not (math.isfinite(ra2) and math.isfinite(dec2)):
            ctx.fail('spec', case, f"translate({ra!r}, {dec!r}, {r!r}, {t!r}) = {(ra2, dec2)!r} is not a point of the sphere",
                     dict(site='translate', what='non-finite'))
            ctx.count('translate:non-finite')
            ctx.case(case, nontrivial_key=('translate', ra, dec, r, t))
            continue
        rd, rpa, rsin = ref_gcd_pa(ra, dec, ra2, dec2)
        cd1 = abs(math.cos(math.radians(dec)))
        cd2 = abs(math.cos(math.radians(dec2)))
        # dec_out = arcsin(.) is ill-conditioned at the poles: error ~ 1e-16/cos(dec_out) rad
        told = 1e-9 + 3e-14 / max(cd2, 1e-9)
        ed = abs(float(rd) - r)
        if not (ed <= told):
            ctx.fail('spec', case, f"distance start->translate = {float(rd)!r}, requested r={r!r} (|diff| {ed:.3e} > {told:.2e})",
                     dict(site='translate', what='distance'))
        # bearing is defined for 0 < r < 180 away from the poles
        sn = float(rsin)
        tolb = None
        if 0 < r < 180 and cd1 > 1e-6 and sn > 1e-12:
            # conditioning: y,x of the two arctan2 carry ~1e-16 absolute error; the RA offset is then uncertain by
            # 1e-16/(cos dec * cos dec'), the new declination by 1e-16/cos dec'; seen from the start point at
            # distance r these move the bearing by that amount * cos dec' / sin r  (all in radians)
            tolb = 1e-9 + 3e-13 / sn + 3e-14 / (max(cd2, 1e-9) * sn) + 3e-14 / (cd1 * sn)
            eb = angdiff(rpa, t)
            if eb > tolb:
                ctx.fail('spec', case, f"initial bearing start->translate = {float(rpa)!r}, requested theta={t!r} "
                                       f"(|diff| {eb:.3e} > {tolb:.2e})", dict(site='translate', what='bearing'))
        else:
            ctx.count('translate:bearing-undefined')
        tra = 1e-10 + 1e-12 / max(cd1 * cd2, 1e-300)
        well = cd1 * cd2 > 1e-9
        if ra_arr is not None:
            if abs(dec_arr[k] - dec2) > told or (well and angdiff(ra_arr[k], ra2) > tra):
                ctx.fail('spec', case, f"translate scalar {(ra2, dec2)!r} vs array {(float(ra_arr[k]), float(dec_arr[k]))!r}",
                         dict(site='translate', what='scalar-vs-array'))
        if outs is not None:
            mra, mdec = [h2f(w) for w in outs[k].split()]
            if abs(mdec - dec2) > told or (well and angdiff(mra, ra2) > tra):
                ctx.fail('corr', case, f"translate impl {(ra2, dec2)!r} vs regenerated model {(mra, mdec)!r}",
                         dict(site='translate', what='model'))
        nt = ('translate', ra, dec, r, t) if (abs(dec) > 89 or r < 1e-3 or r > 179 or cd2 < 1e-3) else None
        ctx.count('translate:' + ('pole-start' if cd1 < 1e-6 else 'pole-end' if cd2 < 1e-6 else 'r<1e-3' if r < 1e-3 else 'r>179' if r > 179 else 'mid'))
        ctx.case(case, nontrivial_key=nt, sample_every=499)


# ---------------------------------------------------------------------------------------------
# spellings of a sexagesimal string: the parser documents "[+- ]dd:mm[:ss.s]", colons replaceable
# by white space; a right-justified table cell or a tab in front must not change the value
# ---------------------------------------------------------------------------------------------
def hexs(t):
    return t.encode('ascii').hex() or '-'


def spellings(rng, s):
    """(label, string) variants of the printed string s that must parse to the same number"""
    pads = [' ', '  ', '\t', ' \t ', '      ']
    out = [('blanks-for-colons', s.replace(':', ' ')),
           ('right-justified', '{0:>14s}'.format(s)),
           ('right-justified+blanks', '{0:>16s}'.format(s.replace(':', ' '))),
           ('leading-tab', '\t' + s),
           ('trailing-blanks', s + rng.choice(pads)),
           ('padded-both+tabs', rng.choice(pads) + s.replace(':', rng.choice([' ', '\t', '  '])) + rng.choice(pads) + '\n')]
    return out


def gen_parse_strings(rng, n):
    """free-form field strings: (string, exact value in degrees as Fraction, tags) for dec2dec"""
    out = []
    for _ in range(n):
        sign = rng.choice(['', '', '+', '-', '-', '-'])
        deg = rng.choice([0, 0, 0, rng.randint(0, 9), rng.randint(0, 99), rng.randint(0, 359)])
        degtxt = rng.choice(['%d', '%02d', '%03d']) % deg
        mm = rng.choice([0, rng.randint(0, 59)])
        mtxt = rng.choice(['%d', '%02d']) % mm
        nf = rng.choice([2, 3, 3, 3])
        fields = [sign + degtxt, mtxt]
        val = Fraction(deg) + Fraction(mm, 60)
        if nf == 3:
            dec = rng.choice([0, 1, 2, 3])
            sec = rng.randint(0, 60 * 10 ** dec - 1)
            stxt = ('%0*d' % (dec + 2, sec))
            stxt = stxt[:-dec] + '.' + stxt[-dec:] if dec else rng.choice([stxt, stxt + '.'])
            fields.append(stxt)
            val += Fraction(sec, 3600 * 10 ** dec)
        if sign == '-':
            val = -val
        sep = rng.choice([':', ':', ' ', '\t', '  ', ' : '])
        pre = rng.choice(['', '', ' ', '   ', '\t', ' \t', '          '])
        post = rng.choice(['', '', ' ', '\n', '\t ', '   '])
        t = pre + sep.join(fields) + post
        tags = dict(sign=sign or 'none', zero_degrees=(deg == 0), leading_ws=bool(pre), trailing_ws=bool(post),
                    sep=repr(sep), fields=nf)
        out.append((t, val, tags))
    return out


def judge_parse_strings(ctx, items):
    """Spec: dec2dec / ra2dec return the exact sexagesimal value (sign from the first field's first
    character); correspondence with the Lean string-level parser model on the raw characters"""
    at = _at()
    lines = []
    for (t, _, _) in items:
        lines += ["parsex dec " + hexs(t), "parsex ra " + hexs(t)]
    outs = ctx.driver.batch(lines) if ctx.driver_ok else None
    for k, (t, val, tags) in enumerate(items):
        for j, (name, f, scale) in enumerate((('dec2dec', at.dec2dec, 1), ('ra2dec', at.ra2dec, 15))):
            case = dict(kind='parse-string', func=name, s=t, exact=float(val * scale))
            try:
                got = float(f(t))
            except Exception as e:
                ctx.fail('spec', case, f"{name}({t!r}) raised {type(e).__name__}: {e} on a well-formed string",
                         dict(site=name, what='parse-raises'))
                ctx.case(case)
                continue
            case['got'] = got
            if abs(Fraction(got) - val * scale) > Fraction(1, 10 ** 10):
                ctx.fail('spec', case, f"{name}({t!r}) = {got!r}, the string denotes {float(val * scale)!r}",
                         dict(site=name, what='parse-value', sign=tags['sign'], zero_degrees=tags['zero_degrees'],
                              leading_ws=tags['leading_ws']))
            if outs is not None:
                w = outs[2 * k + j].split()
                if w[0] != 'ok' or not common.close(got, common.h2f(w[1]), rel=4e-16):
                    ctx.fail('corr', case, f"{name}({t!r}): implementation {got!r}, model {outs[2 * k + j]!r}",
                             dict(site=name, what='parse-model'))
            ctx.count('parse-string:sign=' + tags['sign'] + (',zero-deg' if tags['zero_degrees'] else '') +
                      (',lead-ws' if tags['leading_ws'] else ''))
            ctx.case(case, nontrivial_key=('parse-string', name, t) if (tags['leading_ws'] or tags['zero_degrees'] or tags['sign'] != 'none') else None,
                     sample_every=499)


# ---------------------------------------------------------------------------------------------
# sexagesimal: judges
# ---------------------------------------------------------------------------------------------
RE_DMS = re.compile(r'^([+-])(\d\d):(\d\d):(\d\d)\.(\d\d)$')
RE_HMS = re.compile(r'^(\d\d):(\d\d):(\d\d)\.(\d\d)$')


def round_exact(q):
    """nearest integer to the Fraction q (ties to even) and the distance of q from the nearest tie"""
    fl = q.numerator // q.denominator
    fr = q - fl
    tie = abs(fr - Fraction(1, 2))
    if fr > Fraction(1, 2) or (fr == Fraction(1, 2) and fl % 2 == 1):
        return fl + 1, tie
    return fl, tie


def near_carry(x, unit):
    """is |x| (in `unit`s per degree of the top field) within CARRY_DEG of a whole minute of the middle field?"""
    if not math.isfinite(x):
        return True
    y = abs(x) * unit * 60.0          # in minutes of the middle field
    return abs(y - round(y)) < CARRY_DEG * unit * 60.0


def judge_sexa(ctx, kind, xs, model=True):
    """kind = 'dms' (dec2dms/dec2dec) or 'hms' (dec2hms/ra2dec)"""
    at = _at()
    fmt = at.dec2dms if kind == 'dms' else at.dec2hms
    parse = at.dec2dec if kind == 'dms' else at.ra2dec
    site = 'dec2dms' if kind == 'dms' else 'dec2hms'
    psite = 'dec2dec' if kind == 'dms' else 'ra2dec'
    scale = 360000 if kind == 'dms' else 24000
    half = 0.5 / scale
    lines, meta, glue = [], [], []
    for x in xs:
        case = dict(kind=kind, x=x)
        try:
            s = fmt(x)
        except Exception as e:
            ctx.fail('spec', case, f"{site} raised {type(e).__name__}: {e}", dict(site=site, what='raises'))
            ctx.case(case)
            continue
        case['out'] = s
        glue.append((x, s))
        nt = (kind, x) if (near_carry(x, 1 if kind == 'dms' else 1 / 15.0) or (kind == 'hms' and (x < 0 or x >= 360 - 1e-6))) else None
        if not math.isfinite(x):
            if s != 'XX:XX:XX.XX':
                ctx.fail('spec', case, f"{site}({x!r}) = {s!r}, expected 'XX:XX:XX.XX'", dict(site=site, what='non-finite'))
            ctx.count(kind + ':non-finite')
            ctx.case(case, nontrivial_key=(kind, repr(x)))
            continue
        m = (RE_DMS if kind == 'dms' else RE_HMS).match(s)
        if not m:
            ctx.fail('spec', case, f"{site}({x!r}) = {s!r} does not have the format "
                                   f"{'[+-]DD:MM:SS.SS' if kind == 'dms' else 'HH:MM:SS.SS'}", dict(site=site, what='format'))
            ctx.case(case, nontrivial_key=nt)
            continue
        g = m.groups()
        if kind == 'dms':
            sign, top, mm, ss, cc = g[0], int(g[1]), int(g[2]), int(g[3]), int(g[4])
        else:
            sign, top, mm, ss, cc = '+', int(g[0]), int(g[1]), int(g[2]), int(g[3])
        bad = None
        if ss >= 60:
            bad = ('seconds', f"seconds field {g[-2]}.{g[-1]} is not below 60")
        elif mm >= 60:
            bad = ('minutes', f"minutes field {mm} is not below 60")
        elif kind == 'hms' and top >= 24:
            bad = ('hours', f"hours field {top} is not below 24")
        elif kind == 'dms' and abs(x) <= 90 and (top > 90 or (top == 90 and (mm, ss, cc) != (0, 0, 0))):
            bad = ('degrees', f"degrees field exceeds 90 for |x| <= 90")
        if bad:
            ctx.fail('spec', case, f"{site}({x!r}) = {s!r}: {bad[1]}", dict(site=site, what='field-range', field=bad[0]))
        # inverse to half a unit of the last digit, by the implementation's own parser and by an exact one
        try:
            back = float(parse(s))
        except Exception as e:
            back = None
            ctx.fail('spec', case, f"parser raised {type(e).__name__} on the formatter's own output {s!r}", dict(site=site, what='parse-raises'))
        exact = (Fraction(top) + Fraction(mm, 60) + Fraction(ss * 100 + cc, 360000)) * (-1 if sign == '-' else 1)
        if kind == 'hms':
            exact *= 15
        if back is not None and abs(Fraction(back) - exact) > Fraction(1, 10 ** 11):
            ctx.fail('spec', case, f"parser returned {back!r} for {s!r} (exact value {float(exact)!r})", dict(site=site, what='parse-value'))
        d = Fraction(x) - exact
        if kind == 'hms':
            d = (d + 180) % 360 - 180
        if abs(d) > Fraction(half) * (1 + Fraction(1, 10 ** 6)) and not bad:
            ctx.fail('spec', case, f"{site}({x!r}) = {s!r} is {float(abs(d)):.3e} deg away from the input "
                                   f"(> half a unit of the last digit = {half:.3e})", dict(site=site, what='inverse'))
        # every documented spelling of the printed string parses to the same number
        if back is not None:
            sp = spellings(ctx.rng, s)
            for label, t in (sp if (nt or len(meta) % 7 == 0) else sp[:3]):
                try:
                    bt = float(parse(t))
                except Exception as e:
                    bt = None
                    ctx.fail('spec', dict(case, spelling=t), f"parser raised {type(e).__name__} on {t!r} ({label} of {s!r})",
                             dict(site=psite, what='whitespace-invariance', spelling=label))
                if bt is not None and bt != back:
                    ctx.fail('spec', dict(case, spelling=t),
                             f"parser returns {bt!r} for {t!r} but {back!r} for {s!r} ({label}); the string was formatted from {x!r}",
                             dict(site=psite, what='whitespace-invariance', spelling=label,
                                  negative_zero_degrees=(sign == '-' and top == 0)))
                ctx.count(kind + ':spelling:' + label)
            spell_line = "parsex %s %s" % ('dec' if kind == 'dms' else 'ra', hexs(sp[len(meta) % len(sp)][1]))
        else:
            spell_line = None
        # correspondence with the integer model
        if kind == 'dms':
            n, tie = round_exact(abs(Fraction(x)) * scale)
            line = f"dms {1 if x < 0 else 0} {n}"
        else:
            n, tie = round_exact(Fraction(x) * scale)
            line = f"hms {n}"
        if tie < Fraction(TIE_BAND):
            ctx.count(kind + ':tie-band(excluded from model comparison)')
            line = None
        meta.append((case, s, line, nt))
        if line:
            lines.append(line)
            lines.append(f"parse {'dec' if kind == 'dms' else 'ra'} {s}")
            lines.append(spell_line or f"parse {'dec' if kind == 'dms' else 'ra'} {s}")
        ctx.count(kind + (':carry' if nt else ':plain'))
    outs = ctx.driver.batch(lines) if (model and ctx.driver_ok and lines) else None
    j = 0
    for case, s, line, nt in meta:
        if line and outs is not None:
            ms, mp, msp = outs[j], outs[j + 1], outs[j + 2]
            j += 3
            if msp != mp:
                ctx.fail('corr', case, f"Lean parser model: {mp!r} for {s!r} but {msp!r} for a padded spelling of it",
                         dict(site=site, what='parse-model-spelling'))
            # the property does not constrain the sign character of an all-zero string ('+00:00:00.00' and
            # '-00:00:00.00' both parse to 0 and both are within half a unit of the input): compared up to that freedom;
            # the theorems (dms_string_roundtrip, dms_half_unit) hold for either sign
            if kind == 'dms' and ms[1:] == '00:00:00.00' and s[1:] == ms[1:] and s[:1] in '+-':
                if s != ms:
                    ctx.count('dms:all-zero string, sign differs from the model (allowed)')
                ms = s
            if ms != s:
                ctx.fail('corr', case, f"{site}({case['x']!r}) = {s!r} but the integer model prints {ms!r} ({line})",
                         dict(site=site, what='model'))
            try:
                back = float(parse(s))
                w = mp.split()
                if w[0] != 'ok' or not common.close(back, common.h2f(w[1]), rel=4e-16):
                    ctx.fail('corr', case, f"parser impl {back!r} vs model {mp!r} on {s!r}", dict(site=site, what='parse-model'))
            except Exception:
                pass
        ctx.case(case, nontrivial_key=nt, sample_every=499)
    # the whole formatter as glue over the regenerated pieces (scaled quantity, rounding, wrap, fields, sign, guard)
    if model and ctx.driver_ok and glue:
        gouts = ctx.driver.batch([f"fmtx {kind} {common.f2h(x)}" for x, _ in glue])
        for (x, s_impl), g in zip(glue, gouts):
            if math.isfinite(x):
                q = (abs(Fraction(x)) if kind == 'dms' else Fraction(x)) * scale
                if round_exact(q)[1] < Fraction(TIE_BAND):
                    continue
                if kind == 'dms' and g[1:] == '00:00:00.00' and s_impl[1:] == g[1:] and s_impl[:1] in '+-':
                    g = s_impl          # the sign of an all-zero string is free
            if g != s_impl:
                ctx.fail('corr', dict(kind=kind, x=x, out=s_impl), f"{site}({x!r}) = {s_impl!r} but the glue over the regenerated pieces "
                                                                  f"(Model.C17.dec2{kind}Glue) prints {g!r}", dict(site=site, what='glue-model'))
            ctx.count(kind + ':glue-compared')


MALFORMED = ['', '   ', 'abc', '12', '12:xx', 'x:1:2', '1:2:y', '12:', ':', '12::30', '+12:30', '-0:30:00', '-00 30',
             ' 12  30 ', '1:2:3:4', '12:30:', '00 01', '-12 04 22', '14:21:45.003', '+14:21:45.003', '-99 04 22',
             '-00 01 23.456', '12 30.5', '.5:1:1', '1.:2:3', '-.5 0', '1:-2:3', '1:+2:3', '12\t30\n15']


def judge_parser(ctx, strings):
    at = _at()
    lines = []
    for s in strings:
        lines.append("parse dec " + s.replace('\t', ' ').replace('\n', ' '))
        lines.append("parse ra " + s.replace('\t', ' ').replace('\n', ' '))
    outs = ctx.driver.batch(lines) if ctx.driver_ok else None
    for k, s in enumerate(strings):
        for j, (name, f) in enumerate((('dec2dec', at.dec2dec), ('ra2dec', at.ra2dec))):
            case = dict(kind='parse', func=name, s=s)
            try:
                got = ('ok', float(f(s)))
            except IndexError:
                got = ('err', 'index')
            except ValueError:
                got = ('err', 'value')
            except Exception as e:
                got = ('err', type(e).__name__)
            if outs is not None:
                w = outs[2 * k + j].split()
                same = (w[0] == got[0]) and (w[1] == got[1] if got[0] == 'err' else common.close(got[1], common.h2f(w[1]), rel=4e-16))
                if not same:
                    ctx.fail('corr', case, f"{name}({s!r}): implementation {got!r}, model {outs[2 * k + j]!r}", dict(site=name, what='parse-model'))
            ctx.count('parse:' + got[0])
            ctx.case(case, nontrivial_key=('parse', name, s))


def judge_pinned_model(ctx, xs_dms, xs_hms):
    """(P): the Lean Float model of the pinned formatters vs the verbatim Python copy"""
    if not ctx.driver_ok:
        return
    lines, exp = [], []
    for x in xs_dms:
        if not math.isfinite(x):
            continue
        s, sec = pinned_dec2dms(x)
        if abs(sec * 100 - math.floor(sec * 100) - 0.5) < 1e-6:
            continue
        lines.append("pdms " + common.f2h(x))
        exp.append((x, s))
    for x in xs_hms:
        if not math.isfinite(x) or x < -360 or x >= 1e6:
            continue
        s, sec = pinned_dec2hms(x)
        if abs(sec * 100 - math.floor(sec * 100) - 0.5) < 1e-6:
            continue
        lines.append("phms " + common.f2h(x))
        exp.append((x, s))
    outs = ctx.driver.batch(lines)
    bad60 = 0
    for (x, s), o, l in zip(exp, outs, lines):
        if ':60.00' in s:
            bad60 += 1
        if o != s:
            ctx.fail('corr', dict(kind='pinned-model', x=x, op=l.split()[0]), f"pinned Python copy prints {s!r}, Lean Float model {o!r}",
                     dict(site='pinned-model', what='model'))
    ctx.count('pinned-model:compared', len(exp))
    ctx.count('pinned-model:prints-60.00', bad60)


# ---------------------------------------------------------------------------------------------
# call HISTORIES: the answer must depend on the current argument VALUES only
#
# The Lean model is a pure function, so "the result is a function of the current argument values; the
# arguments are not modified" holds for it by construction; no theorem can say that about the Python
# code, whose module state / caches / argument aliasing live outside the model.  The correspondence is
# therefore also run as histories: the SAME ndarray objects are passed again and again, their contents
# changed in place between calls (each argument in turn), nothing else is called in between, and every
# answer is compared afterwards with the answer for fresh arrays holding the same values.
# ---------------------------------------------------------------------------------------------
HIST_FUNCS = {'gcd': ('ra1', 'dec1', 'ra2', 'dec2'), 'bear': ('ra1', 'dec1', 'ra2', 'dec2'),
              'translate': ('ra', 'dec', 'r', 'theta')}


def _hist_value(rng, name, n, integer):
    if name.startswith('ra') or name == 'theta':
        v = [rng.uniform(0, 360) for _ in range(n)]
    elif name.startswith('dec'):
        v = [rng.uniform(-85, 85) for _ in range(n)]
    else:
        v = [rng.uniform(0.5, 170) for _ in range(n)]
    return [float(int(x)) for x in v] if integer else v


def gen_history(rng, func, steps, dtype):
    """list of states; state = 4 lists of values.  Between consecutive states exactly one argument (each in turn)
    or occasionally all of them change, by the in-place idioms  a[:] = new,  a += c,  a *= c."""
    names = HIST_FUNCS[func]
    n = rng.choice([1, 3, 6])
    integer = dtype.startswith('int')
    state = [_hist_value(rng, nm, n, integer) for nm in names]
    out = [[list(v) for v in state]]
    order = list(range(4))
    rng.shuffle(order)
    for k in range(steps):
        which = [order[k % 4]] if rng.random() < 0.85 else [0, 1, 2, 3]
        for i in which:
            nm = names[i]
            op = rng.choice(['assign', 'iadd', 'imul'])
            if op == 'assign':
                state[i] = _hist_value(rng, nm, n, integer)
            elif op == 'iadd':
                c = 3.0
                state[i] = [x + c for x in state[i]]
            else:
                c = 2.0 if integer else 0.5
                state[i] = [x * c for x in state[i]]
            if nm.startswith('dec'):
                state[i] = [max(-89.0, min(89.0, x)) for x in state[i]]
            if nm == 'r':
                state[i] = [max(0.5, min(175.0, x)) for x in state[i]]
        out.append([list(v) for v in state])
    return out


def _as_tuple(res):
    return tuple(np.array(x, dtype=float, copy=True) for x in (res if isinstance(res, tuple) else (res,)))


def _same(a, b):
    return len(a) == len(b) and all(x.shape == y.shape and np.array_equal(x, y, equal_nan=True) for x, y in zip(a, b))


def run_history(func, states, dtype):
    """returns (results with reused objects, results with fresh arrays, list of (step, argname) whose array was modified
    by the call)"""
    at = _at()
    f = getattr(at, func)
    names = HIST_FUNCS[func]
    dt = np.dtype(dtype)
    objs = [np.array(v, dtype=dt) for v in states[0]]
    reused, mutated = [], []
    for k, st in enumerate(states):
        if k:
            for i in range(4):
                if st[i] != states[k - 1][i]:
                    objs[i][:] = np.array(st[i], dtype=dt)          # in place: the object stays the same
        before = [o.copy() for o in objs]
        reused.append(_as_tuple(f(*objs)))
        for i in range(4):
            if not np.array_equal(objs[i], before[i], equal_nan=True):
                mutated.append((k, names[i]))
                objs[i][:] = before[i]
    fresh = [_as_tuple(f(*[np.array(v, dtype=dt) for v in st])) for st in states]
    return reused, fresh, mutated


def judge_history(ctx, func, states, dtype, regime='generated'):
    names = HIST_FUNCS[func]
    case = dict(kind='history', func=func, dtype=dtype, states=states)
    try:
        reused, fresh, mutated = run_history(func, states, dtype)
    except Exception as e:
        ctx.fail('spec', case, f"{func} raised {type(e).__name__}: {e} in a call history", dict(site=func, what='raises'))
        ctx.case(dict(kind='history', func=func, dtype=dtype, steps=len(states)))
        return
    for (k, nm) in mutated[:1]:
        ctx.fail('spec', dict(case, states=states[:k + 1]), f"{func} modified its argument array `{nm}` (call {k} of the history)",
                 dict(site=func, what='argument-modified', arg=nm))
    bad = [k for k in range(len(states)) if not _same(reused[k], fresh[k])]
    if bad:
        k = bad[0]
        changed = [names[i] for i in range(4) if k and states[k][i] != states[k - 1][i]]
        mini = states[:k + 1]
        if k >= 1:      # shrink: previous call + this call
            try:
                r2, f2, _ = run_history(func, states[k - 1:k + 1], dtype)
                if not _same(r2[1], f2[1]):
                    mini = states[k - 1:k + 1]
            except Exception:
                pass
        ctx.fail('spec', dict(case, states=mini),
                 f"{func}: call {k} of a history that re-uses the same ndarray objects (argument(s) {changed} changed in place since "
                 f"the previous call) returned {[x.tolist() for x in reused[k]]!r}, fresh arrays with the same values give "
                 f"{[x.tolist() for x in fresh[k]]!r}", dict(site=func, what='history-dependence', args=",".join(changed)))
    ctx.count(f'history:{func}:{dtype}')
    ctx.case(dict(kind='history', func=func, dtype=dtype, steps=len(states), n=len(states[0][0])),
             nontrivial_key=('history', func, dtype, json_key(states)), sample_every=97)


def json_key(x):
    import hashlib
    import json
    return hashlib.sha1(json.dumps(x).encode()).hexdigest()[:16]


def judge_histories(ctx, n_hist):
    rng = ctx.rng
    for func in HIST_FUNCS:
        for h in range(n_hist):
            dtype = ['float64', 'float64', 'float64', 'int64', 'float32', 'int32'][h % 6]
            judge_history(ctx, func, gen_history(rng, func, rng.choice([4, 8, 12]), dtype), dtype)


def _close_out(func, q, a, b, tol):
    """outputs that are angles on the circle (bear; the RA returned by translate) are compared modulo 360"""
    a, b = np.asarray(a, dtype=float), np.asarray(b, dtype=float)
    if func == 'bear' or (func == 'translate' and q == 0):
        d = np.abs((a - b + 180.0) % 360.0 - 180.0)
        return bool(np.all(d <= tol))
    return bool(np.allclose(a, b, rtol=0, atol=tol))


def judge_types(ctx, n):
    """integer-typed arrays / Python ints, 0-d arrays, numpy scalar types, mixed scalar-array broadcasting: the answer
    must be the float64 answer for the same values; dec2dms/dec2hms on numpy scalar types"""
    at = _at()
    rng = ctx.rng
    conv = {'int': int, 'np.int64': np.int64, 'np.int32': np.int32, 'np.float64': np.float64, '0-d float64': lambda v: np.array(float(v)),
            '0-d int64': lambda v: np.array(int(v)), 'np.float32': np.float32, '0-d float32': lambda v: np.array(v, dtype=np.float32)}
    for func, names in HIST_FUNCS.items():
        f = getattr(at, func)
        for _ in range(n):
            vals = [float(int(_hist_value(rng, nm, 1, True)[0])) for nm in names]      # integers: exact in every type
            ref = _as_tuple(f(*vals))
            kinds = [rng.choice(list(conv)) for _ in range(4)]
            case = dict(kind='types', func=func, values=vals, types=kinds)
            try:
                got = _as_tuple(f(*[conv[k](v) for k, v in zip(kinds, vals)]))
            except Exception as e:
                ctx.fail('spec', case, f"{func} raised {type(e).__name__}: {e} for argument types {kinds}", dict(site=func, what='types-raise'))
                ctx.case(case)
                continue
            tol = 2e-3 if any('float32' in k for k in kinds) else 1e-10
            if not all(x.shape == y.shape and _close_out(func, q, x, y, tol) for q, (x, y) in enumerate(zip(got, ref))):
                ctx.fail('spec', case, f"{func}{tuple(vals)} = {[x.tolist() for x in ref]} with floats but {[x.tolist() for x in got]} with types {kinds}",
                         dict(site=func, what='types-value'))
            # mixed scalar-array broadcasting against element-wise scalar calls
            m = 4
            cols = [[float(int(_hist_value(rng, nm, 1, True)[0])) for _ in range(m)] for nm in names]
            isarr = [rng.random() < 0.5 for _ in range(4)]
            if not any(isarr):
                isarr[rng.randrange(4)] = True
            args = [np.array(c) if a else c[0] for c, a in zip(cols, isarr)]
            owned = [a.copy() if isinstance(a, np.ndarray) else a for a in args]
            bcase = dict(kind='broadcast', func=func, cols=cols, is_array=isarr)
            try:
                res = _as_tuple(f(*args))
                want = [_as_tuple(f(*[(c[j] if a else c[0]) for c, a in zip(cols, isarr)])) for j in range(m)]
                # an output that does not depend on any array argument may legitimately stay a scalar: compare broadcast
                ok = all(res[q].shape in ((m,), ()) and _close_out(func, q, np.broadcast_to(res[q], (m,)), [w[q] for w in want], 1e-10)
                         for q in range(len(res)))
                if not ok:
                    ctx.fail('spec', bcase, f"{func} with mixed scalar/array arguments {isarr} differs from element-wise scalar calls",
                             dict(site=func, what='broadcast'))
                if any(isinstance(a, np.ndarray) and not np.array_equal(a, o) for a, o in zip(args, owned)):
                    ctx.fail('spec', bcase, f"{func} modified an argument array", dict(site=func, what='argument-modified'))
            except Exception as e:
                ctx.fail('spec', bcase, f"{func} raised {type(e).__name__}: {e} with mixed scalar/array arguments", dict(site=func, what='broadcast'))
            ctx.count('types:' + func)
            ctx.case(case, nontrivial_key=('types', func, tuple(vals), tuple(kinds)), sample_every=97)
    # formatters on numpy scalar types (values exactly representable in every type)
    for name, f, lo, hi in (('dec2dms', at.dec2dms, -90 * 8, 90 * 8), ('dec2hms', at.dec2hms, -360 * 8, 720 * 8)):
        for _ in range(n):
            for kind in ('np.float64', 'np.float32', 'np.int64', 'np.int32', 'int', '0-d float64', '0-d float32'):
                v = rng.randint(lo, hi) / 8.0
                if 'int' in kind:
                    v = float(int(v))
                case = dict(kind='fmt-type', func=name, x=v, type=kind)
                want = f(float(v))
                try:
                    got = f(conv[kind](v))
                except Exception as e:
                    got = f"raised {type(e).__name__}: {e}"
                if got != want:
                    ctx.fail('spec', case, f"{name}({kind}({v!r})) = {got!r} but {want!r} for the Python float", dict(site=name, what='types-value', type=kind))
                ctx.count('fmt-type:' + kind)
                ctx.case(case, nontrivial_key=('fmt-type', name, v, kind))
    # narrow numpy types: the string must be the one printed for float(x) (float() is exact for all of them), and
    # therefore within half a unit of the value passed in -- also for float32 values that are not dyadic-simple
    for name, f, lo, hi in (('dec2dms', at.dec2dms, -90.0, 90.0), ('dec2hms', at.dec2hms, 0.0, 360.0)):
        for _ in range(n):
            for kind, c in (('np.float32', np.float32), ('np.float16', np.float16), ('np.int16', np.int16), ('np.int8', np.int8),
                            ('np.uint8', np.uint8)):
                v = rng.uniform(lo, hi)
                if 'int' in kind:
                    v = int(v) % 100
                xv = c(v)
                case = dict(kind='fmt-type', func=name, x=float(xv), type=kind)
                want = f(float(xv))
                try:
                    got = f(xv)
                except Exception as e:
                    got = f"raised {type(e).__name__}: {e}"
                if got != want:
                    ctx.fail('spec', case, f"{name}({kind}({float(xv)!r})) = {got!r} but {want!r} for the same value as a Python float",
                             dict(site=name, what='types-value', type=kind))
                ctx.count('fmt-type:' + kind)
                ctx.case(case, nontrivial_key=('fmt-type', name, float(xv), kind))

# ---------------------------------------------------------------------------------------------
# vector slices: arrays in which valid pairs share a call with non-finite rows; empty arrays
#
# A catalogue column routinely carries a NaN position next to good ones.  Whatever the function returns for the
# bad row, every VALID row of an array call must get the answer the scalar call gives for that row (and, for gcd,
# the answer of the vector formula to 1e-9 deg) -- a reduction over the whole array (np.max, np.any, …) deciding
# which formula is used must not let one NaN row change the others.  Zero-length arrays must give zero-length
# results, not an exception.
# ---------------------------------------------------------------------------------------------
def _bad_rows(rng, width):
    out = []
    for _ in range(rng.choice([1, 1, 2, 3])):
        row = [rng.uniform(0, 360), rng.uniform(-80, 80), rng.uniform(0, 360), rng.uniform(-80, 80)][:width]
        for j in rng.sample(range(width), rng.choice([1, 1, 2, width])):
            row[j] = rng.choice([float('nan'), float('nan'), float('inf'), float('-inf')])
        out.append(row)
    return out


def judge_array_call(ctx, func, rows):
    """rows: list of 4-lists, some with non-finite entries.  func in gcd / bear / translate."""
    at = _at()
    f = getattr(at, func)
    A = np.array(rows, dtype=float).reshape(-1, 4)
    case = dict(kind='array', func=func, rows=[[float(v) for v in r] for r in rows])
    valid = [i for i, r in enumerate(rows) if all(math.isfinite(v) for v in r)]
    try:
        with np.errstate(all='ignore'):
            res = _as_tuple(f(A[:, 0].copy(), A[:, 1].copy(), A[:, 2].copy(), A[:, 3].copy()))
    except Exception as e:
        ctx.fail('spec', case, f"{func} raised {type(e).__name__}: {e} on arrays of {len(rows)} rows "
                               f"({len(rows) - len(valid)} with a non-finite coordinate)",
                 dict(site=func, what='array-raises', empty=(len(rows) == 0)))
        ctx.case(dict(kind='array', func=func, n=len(rows)))
        return
    if any(x.shape != (len(rows),) for x in res):
        ctx.fail('spec', case, f"{func} on arrays of {len(rows)} rows returned shapes {[x.shape for x in res]}",
                 dict(site=func, what='array-shape', empty=(len(rows) == 0)))
        ctx.case(dict(kind='array', func=func, n=len(rows)))
        return
    for i in valid:
        r = rows[i]
        sc = _as_tuple(f(*r))
        rowcase = dict(case, row=i, scalar=[float(x) for x in sc], in_array=[float(x[i]) for x in res])
        if func == 'gcd':
            rd, _, _ = ref_gcd_pa(*r)
            if abs(Decimal(float(res[0][i])) - rd) > Decimal(TOL_VEC):
                ctx.fail('spec', rowcase, f"gcd of row {i} {tuple(r)!r} inside an array call that also holds a non-finite row is "
                                          f"{float(res[0][i])!r}; the vector formula gives {float(rd)!r} and the scalar call {float(sc[0])!r}",
                         dict(site='gcd', what='array-with-nonfinite-rows', regime=regime_of_sep(float(rd))))
            elif not common.close(float(sc[0]), float(res[0][i]), rel=0, abs_=1e-10):
                ctx.fail('spec', rowcase, f"gcd row {i}: scalar {float(sc[0])!r} vs array {float(res[0][i])!r}",
                         dict(site='gcd', what='array-with-nonfinite-rows'))
        elif func == 'bear':
            _, _, rsin = ref_gcd_pa(*r)
            if float(rsin) > 1e-9 and angdiff(float(sc[0]), float(res[0][i])) > 1e-9 + 2e-13 / float(rsin):
                ctx.fail('spec', rowcase, f"bear row {i}: scalar {float(sc[0])!r} vs array {float(res[0][i])!r}",
                         dict(site='bear', what='array-with-nonfinite-rows'))
        else:
            cd1 = abs(math.cos(math.radians(r[1])))
            cd2 = abs(math.cos(math.radians(float(sc[1]))))
            told = 1e-9 + 3e-14 / max(cd2, 1e-9)
            if abs(float(sc[1]) - float(res[1][i])) > told or \
                    (cd1 * cd2 > 1e-9 and angdiff(float(sc[0]), float(res[0][i])) > 1e-10 + 1e-12 / (cd1 * cd2)):
                ctx.fail('spec', rowcase, f"translate row {i}: scalar {[float(x) for x in sc]!r} vs array {[float(x[i]) for x in res]!r}",
                         dict(site='translate', what='array-with-nonfinite-rows'))
    ctx.count(f'array:{func}:' + ('empty' if not rows else 'with-nonfinite-rows' if len(valid) < len(rows) else 'all-valid'))
    ctx.case(dict(kind='array', func=func, n=len(rows), nonfinite=len(rows) - len(valid)),
             nontrivial_key=('array', func, json_key(case['rows'])), sample_every=97)


def judge_arrays(ctx, n):
    rng = ctx.rng
    for func in ('gcd', 'bear', 'translate'):
        judge_array_call(ctx, func, [])
    pool = [list(p[1:]) for p in gen_pairs(rng, 6 * n)]
    # every batch holds at least one near-antipodal and one sub-arcsecond pair next to the bad rows
    for k in range(n):
        rows = pool[6 * k:6 * k + 4]
        ra, dec = rand_point(rng)
        dec = max(-89.0, min(89.0, dec))
        rows.append([ra, dec, *_move(ra, dec, 180.0 - 10 ** rng.uniform(-9, -3), rng.uniform(0, 360))])
        rows.append([ra, dec, *_move(ra, dec, 10 ** rng.uniform(-9, -4), rng.uniform(0, 360))])
        if k % 5:
            for b in _bad_rows(rng, 4):
                rows.insert(rng.randrange(len(rows) + 1), b)
        for func in ('gcd', 'bear'):
            judge_array_call(ctx, func, rows)
    for k in range(n):
        rows = [list(t) for t in gen_translate(rng, 5)]
        if k % 5:
            for b in _bad_rows(rng, 4):
                rows.insert(rng.randrange(len(rows) + 1), b)
        judge_array_call(ctx, 'translate', rows)


# ---------------------------------------------------------------------------------------------
# exact coincidences: inputs on which gcd's haversine intermediate `a` EQUALS a threshold of the selection
#
# Random input meets `a == t` with probability ~1e-16, so the boundary is solved for: the constants that the
# source under test compares `a` with are read from gcd's AST, and for each of them ra2 is found by bisection
# and then ulp stepping such that `a` (recomputed with the same numpy expression) is exactly that double.
# ---------------------------------------------------------------------------------------------
def selection_thresholds():
    import ast
    import os
    try:
        tree = ast.parse(open(os.path.join(common.repo_path(), 'AegeanTools', 'angle_tools.py')).read())
        fn = [n for n in ast.walk(tree) if isinstance(n, ast.FunctionDef) and n.name == 'gcd'][0]
    except Exception:
        return []
    out = set()
    for n in ast.walk(fn):
        if isinstance(n, ast.Compare):
            terms = [n.left] + list(n.comparators)
            names = [t for t in terms if isinstance(t, ast.Name) and t.id == 'a']
            consts = [t.value for t in terms if isinstance(t, ast.Constant) and isinstance(t.value, (int, float))
                      and not isinstance(t.value, bool)]
            if names:
                out.update(float(c) for c in consts)
    return sorted(t for t in out if 0.0 < t < 1.0)


def hav_a(ra1, dec1, ra2, dec2):
    """the haversine intermediate exactly as angle_tools.gcd computes it"""
    dlon = ra2 - ra1
    dlat = dec2 - dec1
    slon = np.sin(np.radians(dlon) / 2) ** 2
    a = np.sin(np.radians(dlat) / 2) ** 2
    a += np.cos(np.radians(dec1)) * np.cos(np.radians(dec2)) * slon
    return a


def solve_a_equals(rng, t, want=4, tries=60, window=400):
    """pairs (ra1, dec1, ra2, dec2) with hav_a == t exactly"""
    found = []
    nice = [(45.0, 60.0, -50.0), (10.0, 20.0, -35.0), (200.0, -5.0, 40.0)]
    for k in range(tries):
        if len(found) >= want:
            break
        ra1, dec1, dec2 = nice[k] if k < len(nice) else (rng.uniform(0, 180), rng.uniform(-75, 75), rng.uniform(-75, 75))
        lo, hi = 0.0, 180.0
        if not (float(hav_a(ra1, dec1, ra1 + lo, dec2)) < t < float(hav_a(ra1, dec1, ra1 + hi, dec2))):
            continue
        for _ in range(80):
            mid = 0.5 * (lo + hi)
            if float(hav_a(ra1, dec1, ra1 + mid, dec2)) < t:
                lo = mid
            else:
                hi = mid
        c = ra1 + lo
        cand = [c]
        x = c
        for _ in range(window):
            x = float(np.nextafter(x, np.inf))
            cand.append(x)
        x = c
        for _ in range(window):
            x = float(np.nextafter(x, -np.inf))
            cand.append(x)
        cand = np.array(cand)
        av = hav_a(ra1, dec1, cand, dec2)
        for ra2 in cand[av == t][:2]:
            if float(hav_a(ra1, dec1, float(ra2), dec2)) == t:
                found.append((ra1, dec1, float(ra2), dec2))
    return found


def judge_boundaries(ctx, want):
    ths = selection_thresholds()
    ctx.extra['selection_thresholds'] = ths
    for t in ths:
        pts = solve_a_equals(ctx.rng, t, want=want)
        ctx.count(f'boundary:a=={t!r}', len(pts))
        if pts:
            judge_pairs(ctx, [(f'boundary(a=={t!r})', *p) for p in pts])
        else:
            ctx.note(f"no input with a == {t!r} exactly was found")


# ---------------------------------------------------------------------------------------------
# environment slice: the strings must not depend on the process's time zone
# ---------------------------------------------------------------------------------------------
ENV_DMS = [-0.12345, 10.9999999, 45.5, -89.99, 0.0, 12.0729]
ENV_HMS = [0.0, 14.9999999, 23.5678, 187.5, 359.99, -15.0, 301.123456]


def judge_env(ctx, tzs=('AWST-8', 'IST-5:30', 'EST5', 'NST3:30')):
    import os
    import time
    at = _at()
    if not hasattr(time, 'tzset'):
        return
    items = [('dec2dms', x) for x in ENV_DMS] + [('dec2hms', x) for x in ENV_HMS]
    base = {}
    for name, x in items:
        try:
            base[(name, x)] = getattr(at, name)(x)
        except Exception as e:
            base[(name, x)] = f"raised {type(e).__name__}"
    old = os.environ.get('TZ')
    try:
        for tz in tzs:
            os.environ['TZ'] = tz
            time.tzset()
            for name, x in items:
                case = dict(kind='env', func=name, x=x, TZ=tz)
                try:
                    got = getattr(at, name)(x)
                except Exception as e:
                    got = f"raised {type(e).__name__}"
                if got != base[(name, x)]:
                    ctx.fail('spec', case, f"{name}({x!r}) = {got!r} in a process with TZ={tz} but {base[(name, x)]!r} in the default "
                                           f"environment (TZ={old!r})", dict(site=name, what='environment-dependence', env='TZ'))
                ctx.count('env:TZ=' + tz)
                ctx.case(case, nontrivial_key=('env', name, x, tz))
    finally:
        if old is None:
            os.environ.pop('TZ', None)
        else:
            os.environ['TZ'] = old
        time.tzset()


# ---------------------------------------------------------------------------------------------
# corpus: minimised past failures, always run first
# ---------------------------------------------------------------------------------------------
CORPUS_PAIRS = [
    ('corpus-antipodal', 357.84608991260166, -23.991823794920393, 537.8460899126017, 23.991823794920393),
    ('corpus-antipodal', 268.04858844537284, 9.086476048759536, 448.0485884443957, -9.086476048496966),
    ('corpus-antipodal', 0.0, 0.0, 179.99999, 0.0),
    ('corpus-antipodal', 10.0, 30.0, 190.0000001, -30.0),
    ('corpus-poles', 0.0, -90.0, 180.0, 90.0),
    ('corpus-pole-same', 12.0, -90.0, 45.0, -90.0),
    ('corpus-overpole', 120.0, 89.0, 300.0, 89.0),
    ('corpus-unit', 0.0, 0.0, 0.0, 1.0),
    ('corpus-arcsec', 0.0, 0.0, 0.0, 1 / 3600.),
]
CORPUS_DMS = [10.9999999, 0.9999999, 59.99999999, -10.9999999, 89.9999999, float('nan'), float('inf'), -0.12345, 80.0]
CORPUS_HMS = [14.9999999, 359.9999999, -1e-20, 23.5678, -15.0, 15.0, float('nan'), float('-inf'), 360.0]
CORPUS_TRANSLATE = [(10.0, -8.0, 82.0, 180.0), (10.0, 82.0, 172.0, 180.0), (0.0, 0.0, 1.0, 0.0), (45.0, 89.75, 0.5, 0.0), (12.0, -45.0, 1.0, 180.0), (33.0, 90.0, 10.0, 77.0),
                    (33.0, -90.0, 180.0, 10.0), (10.0, 20.0, 0.0, 123.0), (10.0, 20.0, 180.0, 123.0), (200.0, 60.0, 30.0, 0.0)]


CORPUS_STRINGS = [('  -00:07:24.42', Fraction(-12345, 100000) + Fraction(0), dict(sign='-', zero_degrees=True, leading_ws=True, trailing_ws=False, sep="':'", fields=3)),
                  ('\t-0 30', Fraction(-1, 2), dict(sign='-', zero_degrees=True, leading_ws=True, trailing_ws=False, sep="' '", fields=2)),
                  ('   -00 00 36.00  ', Fraction(-1, 100), dict(sign='-', zero_degrees=True, leading_ws=True, trailing_ws=True, sep="' '", fields=3)),
                  (' +00:30:00', Fraction(1, 2), dict(sign='+', zero_degrees=True, leading_ws=True, trailing_ws=False, sep="':'", fields=3))]


CORPUS_HISTORIES = [('translate', [[[10.0, 20.0], [20.0, -35.0], [5.0, 60.0], [30.0, 200.0]],
                                    [[10.0, 20.0], [23.0, -32.0], [5.0, 60.0], [30.0, 200.0]]], 'float64'),
                    ('translate', [[[10.0], [20.0], [5.0], [30.0]], [[10.0], [60.0], [5.0], [30.0]], [[10.0], [60.0], [50.0], [30.0]]], 'int64'),
                    ('gcd', [[[10.0], [20.0], [50.0], [30.0]], [[10.0], [60.0], [50.0], [30.0]], [[10.0], [60.0], [50.0], [-30.0]]], 'float64'),
                    ('bear', [[[10.0], [20.0], [50.0], [30.0]], [[40.0], [20.0], [50.0], [30.0]]], 'float64')]


def run_corpus(ctx):
    import glob
    import json
    import os
    judge_pairs(ctx, CORPUS_PAIRS)
    judge_translate(ctx, CORPUS_TRANSLATE)
    judge_sexa(ctx, 'dms', CORPUS_DMS)
    judge_sexa(ctx, 'hms', CORPUS_HMS)
    judge_parse_strings(ctx, CORPUS_STRINGS)
    judge_array_call(ctx, 'gcd', [[10.0, 30.0, 190.0 + 1e-6, -30.0], [float('nan'), 0.0, 1.0, 1.0], [0.0, 0.0, 0.0, 1.0]])
    for func, states, dtype in CORPUS_HISTORIES:
        judge_history(ctx, func, states, dtype, regime='corpus')
    for fn in sorted(glob.glob(os.path.join(common.VERIF, 'corpus', 'C17', '*.json'))):
        rec = json.load(open(fn))
        replay(ctx, rec)


# ---------------------------------------------------------------------------------------------
# entry points
# ---------------------------------------------------------------------------------------------
def sizes(ctx, wide=False):
    if ctx.quick and not wide:
        return dict(pairs=1500, triples=400, translate=1200, sexa=4000, strings=2500, histories=60, types=60, arrays=120)
    return dict(pairs=40000, triples=12000, translate=40000, sexa=200000, strings=60000, histories=1500, types=1500, arrays=3000)


def run(ctx):
    common.use_repo()
    rng = ctx.rng
    sz = sizes(ctx)
    run_corpus(ctx)
    judge_pairs(ctx, gen_pairs(rng, sz['pairs']))
    judge_triples(ctx, gen_triples(rng, sz['triples']))
    judge_translate(ctx, gen_translate(rng, sz['translate']))
    xs_d, xs_h = gen_dms(rng, sz['sexa']), gen_hms(rng, sz['sexa'])
    judge_sexa(ctx, 'dms', xs_d)
    judge_sexa(ctx, 'hms', xs_h)
    judge_parser(ctx, MALFORMED)
    judge_parse_strings(ctx, gen_parse_strings(rng, sz['strings']))
    judge_histories(ctx, sz['histories'])
    judge_types(ctx, sz['types'])
    judge_boundaries(ctx, 4 if ctx.quick else 12)
    judge_env(ctx)
    judge_arrays(ctx, sz['arrays'])
    judge_pinned_model(ctx, xs_d[: sz['sexa'] // 2], xs_h[: sz['sexa'] // 2])


def search(ctx):
    """implementation vs Spec only (no model), wider than the quick run; stops at the first 'spec' failure class"""
    common.use_repo()
    if any(f['kind'] == 'spec' for f in ctx.failures):
        return
    rng = ctx.rng
    saved = ctx.driver_ok
    ctx.driver_ok = False
    try:
        sz = sizes(ctx, wide=True)
        for step in (lambda: judge_arrays(ctx, sz['arrays']),
                     lambda: judge_boundaries(ctx, 12),
                     lambda: judge_env(ctx),
                     lambda: judge_histories(ctx, sz['histories']),
                     lambda: judge_types(ctx, sz['types']),
                     lambda: judge_parse_strings(ctx, gen_parse_strings(rng, sz['strings'])),
                     lambda: judge_sexa(ctx, 'dms', gen_dms(rng, sz['sexa']), model=False),
                     lambda: judge_sexa(ctx, 'hms', gen_hms(rng, sz['sexa']), model=False),
                     lambda: judge_pairs(ctx, gen_pairs(rng, sz['pairs']), model=False),
                     lambda: judge_translate(ctx, gen_translate(rng, sz['translate']), model=False),
                     lambda: judge_triples(ctx, gen_triples(rng, sz['triples']))):
            step()
            if any(f['kind'] == 'spec' for f in ctx.failures):
                break
    finally:
        ctx.driver_ok = saved


def replay(ctx, rec):
    common.use_repo()
    c = rec['case']
    k = c.get('kind')
    if k == 'pair':
        judge_pairs(ctx, [(c.get('regime', 'replay'), c['ra1'], c['dec1'], c['ra2'], c['dec2'])])
    elif k == 'triple':
        judge_triples(ctx, [(c.get('regime', 'replay'), tuple(c['p1']), tuple(c['p2']), tuple(c['p3']))])
    elif k == 'translate':
        judge_translate(ctx, [(c['ra'], c['dec'], c['r'], c['theta'])])
    elif k in ('dms', 'hms'):
        judge_sexa(ctx, k, [float(c['x'])])
    elif k == 'array':
        judge_array_call(ctx, c['func'], c['rows'])
    elif k == 'env':
        judge_env(ctx, tzs=(c['TZ'],))
    elif k == 'history':
        judge_history(ctx, c['func'], c['states'], c.get('dtype', 'float64'), regime='replay')
    elif k == 'fmt-type':
        at = _at()
        f = getattr(at, c['func'])
        conv = dict((t, getattr(np, t[3:])) for t in ('np.float64', 'np.float32', 'np.float16', 'np.int64', 'np.int32', 'np.int16', 'np.int8', 'np.uint8'))
        conv.update({'int': int, '0-d float64': lambda v: np.array(float(v)), '0-d float32': lambda v: np.array(v, dtype=np.float32)})
        want = f(float(c['x']))
        try:
            got = f(conv[c['type']](c['x']))
        except Exception as e:
            got = f"raised {type(e).__name__}: {e}"
        if got != want:
            ctx.fail('spec', c, f"{c['func']}({c['type']}({c['x']!r})) = {got!r} but {want!r} for the same value as a Python float",
                     dict(site=c['func'], what='types-value', type=c['type']))
        ctx.case(c, nontrivial_key=('fmt-type', c['func'], c['x'], c['type']))
    elif k in ('types', 'broadcast'):
        judge_types(ctx, 30)
    elif k == 'parse-string':
        judge_parse_strings(ctx, [(c['s'], Fraction(c['exact']) / (15 if c.get('func') == 'ra2dec' else 1), dict(sign='-' if c['s'].strip().startswith('-') else 'none', zero_degrees=False, leading_ws=c['s'][:1].isspace(), trailing_ws=False, sep='', fields=3))])
    elif k == 'parse':
        judge_parser(ctx, [c['s']])
    elif k == 'pinned-model':
        judge_pinned_model(ctx, [c['x']] if c.get('op') == 'pdms' else [], [c['x']] if c.get('op') == 'phms' else [])
    else:
        run_corpus(ctx)
