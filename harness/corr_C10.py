"""
C10 — correspondence + Spec checks for MIMAS.mask_plane / mask_file / mask_table / mask_catalog.

run(ctx):    corpus first, then generated images and tables.  For every case the real function is
             run; the sky position of every FITS pixel coordinate x in [0, W+1], y in [0, H+1] is
             computed by the harness itself (astropy WCS, standard 1-based coordinate; cross-checked
             against origin 0 with 0-based indices and against a 40-line zenithal deprojection written
             here, to 1e-9 deg), its HEALPix pixel by healpy, and membership against the region's
             pixel set (cross-checked against Region.sky_within of the tree under test).  These are the two
             oracles `sky`, `inside` of the Lean model.  The driver returns (a) the verdict of the Lean
             Spec (`checkFile` / `checkTable`) on what the implementation returned  -> 'spec' failures,
             and (b) the model's own output -> 'corr' failures.  The Spec is also evaluated here in
             Python (pixel sets) and must agree with the Lean verdict.
search(ctx): wider image sweep, implementation vs Spec only, with shrinking of the image size.
"""
import hashlib
import json
import math
import os
import warnings

import numpy as np

import common

LEVEL = 'proof'
LEANCHECKER = True
RULE = ("image case = (projection, H, W, CDELT, CRPIX, CRVAL, region circles/polygon at a HEALPix depth finer than "
        "the pixel grid, negate, array shape, dtype, entry point mask_plane|mask_file); non-trivial = the image has "
        "pixels on both sides of the region boundary AND the blank set of the correct convention differs from the "
        "blank sets of the (-1,-1)-shifted, (+1,+1)-shifted and (for H != W or always) row/column-swapped "
        "conventions, so that an origin or axis error is visible; table case = (rows, coordinate codes, column "
        "names, negate, entry point, file format); non-trivial = at least one row inside, one outside and one with "
        "a non-finite coordinate, or the empty table; history case = 7 images masked in order in one process with one "
        "Region object and the same file names, equal in shape/CRVAL/CRPIX/|CDELT|/region and differing in CDELT signs "
        "(all four), rotation, dtype, memory layout, entry point, planes - every step judged by its own per-pixel "
        "oracle, counted per step; masked-table case = catalogue with empty (masked) coordinate cells and literal NaN, "
        "entry x input format enumerated (in-memory MaskedColumn, csv, tab, fits, votable), region covering the "
        "position obtained by substituting 0 / the hidden value; history walk also over PV2_1/PV2_2 and LONPOLE, one "
        "header dimension per step; deep-region table = region at HEALPix depth 15/16 with rows at the centres of "
        "pixels p + k*2^32; one image > 2^16 pixels and one table > 2^16 rows; a debug-logging slice; distinct by the "
        "full case description; region-history case = a script over two Region objects in which every mutator of the "
        "Region API occurs once, each followed by masking calls (mask_table, sky_within, mask_plane, mask_file) "
        "judged against the harness's own footprint of the current region")
ASSUMPTIONS = [
    "astropy.wcs implements the FITS WCS papers: wcs_pix2world(p, origin) evaluates the transformation at the FITS "
    "coordinate p + (1 - origin) (sampled every run: origin 0 vs origin 1, and vs an independent zenithal "
    "deprojection incl. PC rotation and LONPOLE, 1e-9 deg; headers with PV terms rely on astropy alone)",
    "healpy.ang2pix(nest=True) is the pixelisation the region's pixel set refers to; Region.get_demoted() is the "
    "region's pixel set (C08)",
    "astropy.io.fits / astropy.table read back what they wrote (mask_file, mask_catalog)",
    "the hand model of mask_plane / mask_file / mask_table is tied to the code only by this sampled correspondence",
    "an empty (masked) table cell is an undefined coordinate whatever value is stored under the mask",
    "pixels whose centre lies within 1e-9 deg of a HEALPix pixel edge of the region boundary are excluded "
    "(the case is skipped and counted)",
]
TRUSTED = ["oracles `sky` (astropy.wcs) and `inside` (healpy + the region's pixel set) as evaluated by this harness"]
PARTIAL = []

PROJS = ['SIN', 'TAN', 'ZEA', 'ARC', 'STG']
NANBITS = {'f4': 0x7fc00000, 'f8': 0x7ff8000000000000}


# ------------------------------------------------------------------------------------------------
# oracles
# ------------------------------------------------------------------------------------------------

def pc_matrix(c):
    a = math.radians(c.get('rot') or 0.0)
    return [[math.cos(a), -math.sin(a)], [math.sin(a), math.cos(a)]]


def make_header(c):
    h = dict(CTYPE1='RA---' + c['proj'], CTYPE2='DEC--' + c['proj'],
             CRVAL1=c['crval'][0], CRVAL2=c['crval'][1],
             CDELT1=c['cdelt'][0], CDELT2=c['cdelt'][1],
             CRPIX1=c['crpix'][0], CRPIX2=c['crpix'][1])
    if c.get('rot'):
        pc = pc_matrix(c)
        h.update(PC1_1=pc[0][0], PC1_2=pc[0][1], PC2_1=pc[1][0], PC2_2=pc[1][1])
    if c.get('pv'):                      # projection parameters (slant orthographic SIN: xi, eta)
        h.update(PV2_1=c['pv'][0], PV2_2=c['pv'][1])
    if c.get('lonpole') is not None:
        h['LONPOLE'] = c['lonpole']
    if c.get('latpole') is not None:
        h['LATPOLE'] = c['latpole']
    return h


def make_wcs(c):
    from astropy.wcs import WCS
    with warnings.catch_warnings():
        warnings.simplefilter('ignore')
        return WCS(make_header(c), naxis=2)


def zenithal(c, x, y):
    """independent deprojection of FITS pixel coordinates (x, y) (1-based) for the five zenithal
    projections, PC rotation, LONPOLE = 180 (CRVAL2 < 90).  Returns ra, dec in degrees."""
    d2r = math.pi / 180
    pc = pc_matrix(c)
    dx, dy = x - c['crpix'][0], y - c['crpix'][1]
    u = c['cdelt'][0] * (pc[0][0] * dx + pc[0][1] * dy)
    v = c['cdelt'][1] * (pc[1][0] * dx + pc[1][1] * dy)
    r = np.hypot(u, v)
    phi = np.arctan2(u, -v)
    rr = r * d2r
    p = c['proj']
    with np.errstate(all='ignore'):
        if p == 'TAN':
            theta = np.arctan2(1.0, rr)
        elif p == 'SIN':
            theta = np.arccos(rr)
        elif p == 'STG':
            theta = math.pi / 2 - 2 * np.arctan(rr / 2)
        elif p == 'ARC':
            theta = math.pi / 2 - rr
        elif p == 'ZEA':
            theta = math.pi / 2 - 2 * np.arcsin(rr / 2)
        else:
            raise ValueError(p)
        a0, d0 = c['crval'][0] * d2r, c['crval'][1] * d2r
        dphi = phi - math.radians(c['lonpole'] if c.get('lonpole') is not None else 180.0)
        st, ct = np.sin(theta), np.cos(theta)
        dec = np.arcsin(st * math.sin(d0) + ct * math.cos(d0) * np.cos(dphi))
        ra = a0 + np.arctan2(-ct * np.sin(dphi), st * math.cos(d0) - ct * math.sin(d0) * np.cos(dphi))
    ra = np.degrees(ra) % 360.0
    return ra, np.degrees(dec)


def build_region(rs):
    from AegeanTools.regions import Region
    reg = Region(maxdepth=rs['depth'])
    for ra, dec, rad in rs.get('circles', []):
        reg.add_circles(math.radians(ra), math.radians(dec), math.radians(rad))
    for poly in rs.get('polys', []):
        reg.add_poly([(math.radians(a), math.radians(d)) for a, d in poly])
    return reg


def pixel_set(region):
    return np.array(sorted(int(p) for p in region.get_demoted()), dtype=np.int64)


def membership(pixset, depth, ra, dec):
    """finite, member for arrays of ra/dec in degrees — healpy directly, not Region.sky_within"""
    import healpy as hp
    ra = np.asarray(ra, dtype=float)
    dec = np.asarray(dec, dtype=float)
    fin = np.isfinite(ra) & np.isfinite(dec)
    theta = np.pi / 2 - np.radians(np.where(fin, dec, 0.0))
    phi = np.radians(np.where(fin, ra, 0.0))
    okr = fin & (theta >= 0) & (theta <= np.pi)
    pix = hp.ang2pix(2 ** depth, np.where(okr, theta, 0.0), np.where(okr, phi, 0.0), nest=True)
    mem = np.isin(pix, pixset) & okr
    return fin, mem


def pole_bit(pixset, depth):
    import healpy as hp
    return bool(np.isin(hp.ang2pix(2 ** depth, 0.0, 0.0, nest=True), pixset))


class Skip(Exception):
    pass


class Mutated(Exception):
    """the implementation changed something the caller owns"""


def image_oracle(ctx, c, region=None):
    """codes over the extended grid x in [0, W+1], y in [0, H+1] ('1' inside, '0' outside, 'n' non-finite)"""
    H, W = c['H'], c['W']
    w = make_wcs(c)
    if region is None:
        region = build_region(c['region'])
    pixset = pixel_set(region)
    depth = c['region']['depth']
    yy, xx = np.mgrid[0:H + 2, 0:W + 2]
    pts = np.c_[xx.ravel(), yy.ravel()].astype(float)
    with warnings.catch_warnings():
        warnings.simplefilter('ignore')
        sky1 = w.wcs_pix2world(pts, 1)
        sky0 = w.wcs_pix2world(pts - 1.0, 0)
    ra, dec = sky1[:, 0], sky1[:, 1]
    fin = np.isfinite(ra) & np.isfinite(dec)
    # contract probes for the WCS oracle
    same_nan = np.array_equal(np.isfinite(sky0), np.isfinite(sky1))
    d01 = np.nanmax(np.abs(sky0 - sky1)) if fin.any() else 0.0
    if not same_nan or d01 > 1e-9:
        raise RuntimeError(f"astropy origin contract broken: origin0 vs origin1 differ by {d01}")
    if c.get('pv'):
        ctx.count('oracle-astropy-only(PV terms)')     # the independent deprojection has no PV terms
        zra, zdec = ra, dec
    else:
        zra, zdec = zenithal(c, pts[:, 0], pts[:, 1])
    if fin.any():
        dra = np.abs(((zra - ra + 180.0) % 360.0) - 180.0) * np.cos(np.radians(np.where(fin, dec, 0.0)))
        dz = max(np.nanmax(np.where(fin, dra, 0.0)), np.nanmax(np.where(fin, np.abs(zdec - dec), 0.0)))
        if dz > 1e-9:
            raise RuntimeError(f"astropy vs independent zenithal deprojection differ by {dz} deg for {c}")
        ctx.extra['max_wcs_oracle_disagreement_deg'] = max(ctx.extra.get('max_wcs_oracle_disagreement_deg', 0.0), float(dz))
    fin, mem = membership(pixset, depth, ra, dec)
    # exclusion band: membership must be stable under a 1e-9 deg displacement
    eps = 1e-9
    cd = np.maximum(np.cos(np.radians(np.where(fin, dec, 0.0))), 1e-6)
    for dx, dy in ((eps, 0), (-eps, 0), (0, eps), (0, -eps)):
        _, m2 = membership(pixset, depth, ra + dx / cd, np.clip(dec + dy, -90, 90))
        if np.any((m2 != mem) & fin):
            raise Skip('a pixel centre lies within 1e-9 deg of the region boundary')
    # Region.sky_within of the tree under test must agree (if not, the image result will show it)
    codes = np.where(~fin, 'n', np.where(mem, '1', '0'))
    grid = codes.reshape(H + 2, W + 2)
    return dict(grid=grid, pole=pole_bit(pixset, depth), region=region, wcs=w,
                ra=ra.reshape(H + 2, W + 2), dec=dec.reshape(H + 2, W + 2))


# ------------------------------------------------------------------------------------------------
# image cases
# ------------------------------------------------------------------------------------------------

def gen_data(c):
    """pixel values: deterministic from the case; a few pre-existing NaNs and specials"""
    shape = tuple(c['shape'])
    rs = np.random.RandomState(c['dseed'] % (2 ** 31))
    n = int(np.prod(shape))
    dt = np.float32 if c['dtype'] == 'f4' else np.float64
    d = (rs.standard_normal(n) * 10).astype(dt)
    d += ((np.arange(n) * 7) % 101 - 50).astype(dt)     # both signs; planes differ through the noise
    if c.get('prenan'):
        k = rs.randint(0, n, size=max(1, n // 37))
        d[k] = np.nan
        d[rs.randint(0, n)] = np.inf
        d[rs.randint(0, n)] = -0.0
    return d.reshape(shape)


def bits(a, dtype):
    a = np.ascontiguousarray(np.asarray(a).astype('=' + dtype, copy=False))
    return a.view(np.uint32 if dtype == 'f4' else np.uint64).ravel()


def run_image_impl(ctx, c, orc):
    """run the implementation; returns (before_bits, after_bits, out_shape) or raises"""
    from AegeanTools import MIMAS
    data = gen_data(c)
    before = bits(data.copy(), c['dtype'])
    reg_before = (orc['region'].maxdepth, pixel_set(orc['region']).tobytes())
    if c['entry'] == 'plane':
        assert len(c['shape']) == 2
        lay = c.get('layout') or 'native'
        if lay == 'bigendian':
            data = data.astype('>' + c['dtype'])
        elif lay == 'fortran':
            data = np.asfortranarray(data)
        elif lay == 'view':          # a non-contiguous window of a larger caller-owned array
            big = np.full((c['H'] + 3, 2 * c['W'] + 1), 7.0, dtype=data.dtype)
            win = big[2:2 + c['H'], 1:1 + 2 * c['W']:2]
            win[...] = data
            data = win
        hdr_before = orc['wcs'].to_header_string()
        with warnings.catch_warnings():
            warnings.simplefilter('ignore')
            out = MIMAS.mask_plane(data, orc['wcs'], orc['region'], c['negate'])
        if orc['wcs'].to_header_string() != hdr_before:
            raise Mutated('mask_plane modified the WCS object it was given')
        if (orc['region'].maxdepth, pixel_set(orc['region']).tobytes()) != reg_before:
            raise Mutated('mask_plane modified the Region it was given')
        if lay == 'view' and not (np.all(big[:2] == 7.0) and np.all(big[2:2 + c['H'], 0::2] == 7.0)):
            raise Mutated('mask_plane wrote outside the array view it was given')
        return before, bits(out, c['dtype']), list(out.shape)
    from astropy.io import fits
    d = ctx.tmpdir()
    tag = c.get('fname') or hashlib.sha1(json.dumps(c, sort_keys=True).encode()).hexdigest()[:12]
    infile, outfile, regfile = (os.path.join(d, f'{tag}_{s}') for s in ('in.fits', 'out.fits', 'reg.mim'))
    hdu = fits.PrimaryHDU(data)
    for k, v in make_header(c).items():
        hdu.header[k] = v
    hdu.writeto(infile, overwrite=True)
    orc['region'].save(regfile)
    sums = [hashlib.sha1(open(f, 'rb').read()).hexdigest() for f in (infile, regfile)]
    try:
        with warnings.catch_warnings():
            warnings.simplefilter('ignore')
            if c['entry'] == 'cli':
                from AegeanTools.CLI import MIMAS as cli
                args = ['--maskimage', regfile, infile, outfile] + (['--negate'] if c['negate'] else [])
                cli.main(args)
            else:
                MIMAS.mask_file(regfile, infile, outfile, negate=c['negate'])
            out = fits.getdata(outfile)
        if sums != [hashlib.sha1(open(f, 'rb').read()).hexdigest() for f in (infile, regfile)]:
            raise Mutated('mask_file modified its input image or region file')
    finally:
        if not c.get('fname'):       # histories keep rewriting the same three file names
            for f in (infile, outfile, regfile):
                if os.path.exists(f):
                    os.remove(f)
    return before, bits(out, c['dtype']), list(out.shape)


def spec_sets(c, grid):
    """the blank set each convention would produce, as boolean (H, W) arrays"""
    H, W = c['H'], c['W']
    ins = (grid == '1')
    own = ins[1:H + 1, 1:W + 1]                     # pixel (i, j) <-> FITS (j+1, i+1)
    conv = {
        'own': own,
        'shift(-1,-1)': ins[0:H, 0:W],              # what origin=1 with 0-based indices evaluates
        'shift(+1,+1)': ins[2:H + 2, 2:W + 2],
        'shift(-1,0)': ins[1:H + 1, 0:W],
        'shift(0,-1)': ins[0:H, 1:W + 1],
    }
    return {k: (v == c['negate']) for k, v in conv.items()}


def nontrivial_image(c, grid):
    s = spec_sets(c, grid)
    own = s['own']
    if own.all() or not own.any():
        return False
    return all((s[k] != own).any() for k in ('shift(-1,-1)', 'shift(+1,+1)', 'shift(-1,0)', 'shift(0,-1)'))


def judge_image(ctx, c, orc, before, after, out_shape, lean_line, record=True):
    """Spec on the implementation's output (Python + Lean verdict), then correspondence with the model.
    Returns the failure kind or None."""
    H, W = c['H'], c['W']
    P = int(np.prod(c['shape'][:-2])) if len(c['shape']) > 2 else 1
    nan = NANBITS[c['dtype']]
    grid = orc['grid']
    must = np.tile(spec_sets(c, grid)['own'].ravel(), P)
    sig = dict(site='mask_plane' if c['entry'] == 'plane' else 'mask_file', what='blanked-set')
    if c.get('debug'):
        sig['logging'] = 'DEBUG'
    py_bad = None
    if after.shape != before.shape:
        py_bad = ('shape', None)
    else:
        want = np.where(must, np.array(nan, dtype=before.dtype), before)
        bad = np.nonzero(want != after)[0]
        if len(bad):
            py_bad = ('pixel', int(bad[0]))
    lean_verdict = None
    model = None
    if lean_line is not None:
        if ' | ' not in lean_line + ' ':
            raise common.LeanError(f"driver answered {lean_line[:80]!r} for {c}")
        v, _, m = lean_line.partition(' |')
        lean_verdict = v.strip()
        model = np.array([int(x, 16) for x in m.split()], dtype=np.uint64)
        if (lean_verdict == 'ok') != (py_bad is None):
            raise RuntimeError(f"Lean Spec verdict {lean_verdict!r} and the Python evaluation {py_bad} disagree on {c}")
    if py_bad is not None:
        if not record:
            return 'spec'
        if py_bad[0] == 'shape':
            detail = f"output has {after.size} pixels, input {before.size}"
            sig['what'] = 'shape'
        else:
            k = py_bad[1]
            p, r = divmod(k, H * W)
            i, j = divmod(r, W)
            # which convention explains the whole output?
            expl = None
            for name, s in spec_sets(c, grid).items():
                if name == 'own':
                    continue
                w2 = np.where(np.tile(s.ravel(), P), np.array(nan, dtype=before.dtype), before)
                if np.array_equal(w2, after):
                    expl = name
                    break
            nbad = int((np.where(must, np.array(nan, dtype=before.dtype), before) != after).sum())
            planes_differ = False
            if P > 1:
                bl = (after == nan).reshape(P, H * W)
                pre = (before == nan).reshape(P, H * W)
                newly = bl & ~pre
                planes_differ = bool(((newly != newly[0]) & ~pre & ~pre[0]).any())
            detail = (f"pixel plane {p} row {i} col {j} (FITS x={j + 1}, y={i + 1}; ra={float(orc['ra'][i + 1, j + 1])!r}, "
                      f"dec={float(orc['dec'][i + 1, j + 1])!r}) has its own centre "
                      f"{'inside' if grid[i + 1, j + 1] == '1' else 'outside/undefined'} the region, negate={c['negate']}: "
                      f"must be {'blanked' if must[k] else 'left unchanged'}, but the output value is "
                      f"{'the blank' if after[k] == nan else ('unchanged' if after[k] == before[k] else 'altered')}; "
                      f"{nbad} of {before.size} pixels wrong"
                      + (f"; the whole output is what the convention {expl} produces" if expl else "")
                      + ("; planes are not masked identically" if planes_differ else ""))
            sig.update(explained_by=expl or 'none', planes_differ=planes_differ,
                       degenerate_axis=bool(len(c['shape']) > 2 and 1 in c['shape'][-2:]))
        ctx.fail('spec', c, detail, sig)
        return 'spec'
    if model is not None and not np.array_equal(model, after.astype(np.uint64)):
        if record:
            k = int(np.nonzero(model != after.astype(np.uint64))[0][0])
            ctx.fail('corr', c, f"implementation and Lean model differ first at flat position {k}", sig)
        return 'corr'
    return None


def lean_file_line(c, orc, before, after):
    H, W = c['H'], c['W']
    P = int(np.prod(c['shape'][:-2])) if len(c['shape']) > 2 else 1
    grid = ''.join(orc['grid'].ravel().tolist())
    nan = NANBITS[c['dtype']]
    if after.shape != before.shape:
        after = np.zeros_like(before)[:0]
        return None
    return (f"file {P} {H} {W} {int(c['negate'])} {int(orc['pole'])} {grid} {nan:x} "
            + ' '.join('%x' % v for v in before.tolist()) + ' ' + ' '.join('%x' % v for v in after.tolist()))


def eval_images(ctx, cases, record=True, use_lean=True, shrink=True):
    """run a list of image cases IN ORDER in this process; returns list of outcomes
    (None | 'spec' | 'corr' | 'skip')"""
    with debug_logging(any(c.get('debug') for c in cases)):
        return _eval_images(ctx, cases, record, use_lean, shrink)


def _eval_images(ctx, cases, record, use_lean, shrink):
    todo, lines = [], []
    outcomes = [None] * len(cases)
    shared = {}
    for n, c in enumerate(cases):
        try:
            reg = None
            if c.get('fname'):       # a history: one Region object serves all its steps
                rk = json.dumps(c['region'], sort_keys=True)
                if rk not in shared:
                    shared[rk] = build_region(c['region'])
                reg = shared[rk]
            orc = image_oracle(ctx, c, region=reg)
        except Skip:
            ctx.count('skipped-boundary-ambiguous')
            outcomes[n] = 'skip'
            continue
        try:
            before, after, out_shape = run_image_impl(ctx, c, orc)
        except Exception as e:  # the implementation raised on a valid image
            outcomes[n] = 'spec'
            if record:
                ctx.fail('spec', c, f"{c['entry']} raised {type(e).__name__}: {str(e)[:200]}",
                         dict(site='mask_plane' if c['entry'] == 'plane' else 'mask_file',
                              what='argument-mutated' if isinstance(e, Mutated) else 'raises',
                              ndim=len(c['shape']), error=type(e).__name__))
                ctx.case(dict(c, outcome='raised'))
            continue
        line = lean_file_line(c, orc, before, after) if (use_lean and ctx.driver_ok) else None
        todo.append((n, c, orc, before, after, out_shape, len(lines) if line else None))
        if line:
            lines.append(line)
    outs = ctx.driver.batch(lines) if lines else []
    for n, c, orc, before, after, out_shape, li in todo:
        ll = outs[li] if li is not None else None
        outcomes[n] = judge_image(ctx, c, orc, before, after, out_shape, ll, False)
        if record and outcomes[n] == 'spec' and shrink and getattr(ctx, '_c10_shrunk', 0) < 2:
            # report a minimised image instead of the generated one
            ctx._c10_shrunk = getattr(ctx, '_c10_shrunk', 0) + 1
            small = shrink_image(ctx, c)
            if eval_images(ctx, [small], record=True, use_lean=use_lean, shrink=False)[0] != 'spec':
                judge_image(ctx, c, orc, before, after, out_shape, ll, True)
        elif record and outcomes[n]:
            judge_image(ctx, c, orc, before, after, out_shape, ll, True)
        if record:
            nt = nontrivial_image(c, orc['grid'])
            key = json.dumps(c, sort_keys=True) if nt else None
            ctx.count(f"image/{c['entry']}/{len(c['shape'])}d")
            ctx.count(f"proj/{c['proj']}")
            ctx.count('negate' if c['negate'] else 'plain')
            if (orc['grid'] == 'n').any():
                ctx.count('image-with-undefined-sky-positions')
            if not (1 <= c['crpix'][0] <= c['W'] and 1 <= c['crpix'][1] <= c['H']):
                ctx.count('crpix-off-image')
            s = spec_sets(c, orc['grid'])
            ctx.case(dict(c, blanked=int(s['own'].sum()), pixels=c['H'] * c['W'],
                          differs_from_origin1=int((s['own'] != s['shift(-1,-1)']).sum())),
                     nontrivial_key=key, sample_every=29)
    return outcomes


def gen_image(rng, quick, small=False):
    proj = rng.choice(PROJS)
    if small:
        H, W = rng.randint(1, 9), rng.randint(1, 9)
    elif rng.random() < 0.15:
        H, W = rng.choice([(48, 64), (64, 48), (33, 64), (48, 17)])
    else:
        H, W = rng.randint(2, 30 if quick else 48), rng.randint(2, 36 if quick else 64)
    if H == W and rng.random() < 0.8:
        W += rng.randint(1, 5)          # non-square so a row/column swap is visible
    nansky = (not small) and rng.random() < 0.08
    if nansky:
        cd = rng.uniform(3.0, 5.0)
        proj = rng.choice(['SIN', 'ZEA', 'ARC'])
    else:
        cd = round(rng.uniform(0.03, 0.3), 4)
    cdx = -cd if rng.random() < 0.8 else cd
    cdy = cd * rng.choice([1.0, 1.0, 0.8, 1.25])
    crval = [round(rng.uniform(0, 360), 3), round(rng.uniform(-75, 75), 3)]
    mode = rng.random()
    if mode < 0.55:
        crpix = [round(rng.uniform(1, W), 2), round(rng.uniform(1, H), 2)]
    elif mode < 0.7:
        crpix = [float(rng.randint(1, W)), float(rng.randint(1, H))]
    else:   # off-image
        crpix = [round(rng.choice([-1, 1]) * rng.uniform(5, 60) + W / 2, 2),
                 round(rng.choice([-1, 1]) * rng.uniform(5, 60) + H / 2, 2)]
    if nansky:
        crpix = [round(W / 2 + rng.uniform(-3, 3), 2), round(H / 2 + rng.uniform(-3, 3), 2)]
    c = dict(kind='image', proj=proj, H=H, W=W, cdelt=[cdx, cdy], crval=crval, crpix=crpix)
    # region: centred on the sky position of pixels of the image, HEALPix cell finer than the pixel grid
    px = min(abs(cdx), abs(cdy))
    depth = max(3, min(12, int(math.ceil(math.log2(58.63 / (0.6 * px))))))
    w = make_wcs(c)
    circles, polys = [], []
    ext = max(2.0, min(H, W)) * px
    for _ in range(rng.choice([1, 1, 2, 3])):
        x, y = rng.uniform(0.5, W + 0.5), rng.uniform(0.5, H + 0.5)
        with warnings.catch_warnings():
            warnings.simplefilter('ignore')
            ra, dec = w.wcs_pix2world([[x, y]], 1)[0]
        if not (np.isfinite(ra) and np.isfinite(dec) and abs(dec) <= 89.9):
            ra, dec = crval     # off the projection (wide fields): fall back to the reference position
        rad = min(ext * rng.uniform(0.12, 0.6), 30.0)
        circles.append([float(ra), float(dec), float(rad)])
    if rng.random() < 0.2 and not nansky:
        x, y = rng.uniform(1, W), rng.uniform(1, H)
        r = max(1.5, min(H, W) * rng.uniform(0.15, 0.45))
        k = rng.choice([3, 4, 5])
        a0 = rng.uniform(0, 2 * math.pi)
        corners = [[x + r * math.cos(a0 - 2 * math.pi * t / k), y + r * math.sin(a0 - 2 * math.pi * t / k)] for t in range(k)]
        with warnings.catch_warnings():
            warnings.simplefilter('ignore')
            sk = w.wcs_pix2world(corners, 1)
        if np.isfinite(sk).all() and np.abs(sk[:, 1]).max() < 88:
            poly = [[float(a), float(d)] for a, d in sk]
            if cdx > 0:
                poly = poly[::-1]
            polys.append(poly)
    c['region'] = dict(depth=depth, circles=circles, polys=polys)
    c['negate'] = rng.random() < 0.5
    c['dtype'] = rng.choice(['f4', 'f4', 'f8'])
    c['prenan'] = rng.random() < 0.3
    c['dseed'] = rng.randint(0, 2 ** 30)
    e = rng.random()
    if e < 0.4:
        c['entry'], c['shape'] = 'plane', [H, W]
    else:
        c['entry'] = 'file' if e < 0.93 else 'cli'
        s = rng.random()
        if s < 0.35:
            c['shape'] = [H, W]
        elif s < 0.65:
            c['shape'] = [rng.randint(2, 4), H, W]
        elif s < 0.8:
            c['shape'] = [1, rng.randint(1, 3), H, W]
        elif s < 0.9:
            c['shape'] = [1, H, W]
        else:
            c['shape'] = [2, 2, H, W]
    return c


def gen_history(rng, quick, nsteps=None):
    """a sequence of images masked one after the other in this process, with the same Region object
    and the same three file names.  All steps share shape / CRVAL / CRPIX / |CDELT| / region; the walk
    changes exactly ONE header dimension per step, in rotation: sign of CDELT1, sign of CDELT2, rotation
    (PC matrix), projection parameters PV2_1/PV2_2 (slant SIN), LONPOLE, LATPOLE; pixel dtype, memory
    layout, entry point and number of planes vary freely.  So every pair of consecutive images differs in
    one WCS keyword group only, and whatever an implementation remembers about the previous image is
    wrong for the next unless it takes that group into account.  Every step is judged against its own
    per-pixel oracle (astropy built from that step's header)."""
    sin = rng.random() < 0.5
    proj = 'SIN' if sin else rng.choice(PROJS)
    wide = sin and rng.random() < 0.8  # wide enough for PV terms to move pixel centres by ~a pixel
    H, W = rng.randint(12 if wide else 6, 18 if quick else 40), rng.randint(12 if wide else 6, 24 if quick else 56)
    if H == W:
        W += rng.randint(1, 4)
    cd = round(rng.uniform(1.5, 3.0), 4) if wide else round(rng.uniform(0.03, 0.3), 4)
    cdy = cd if rng.random() < 0.7 else round(cd * rng.choice([0.8, 1.25]), 5)
    crval = [round(rng.uniform(0, 360), 3), round(rng.uniform(-65, 65), 3)]
    crpix = [round(W / 2 + rng.uniform(-2, 2), 2), round(H / 2 + rng.uniform(-2, 2), 2)]
    base = dict(kind='image', proj=proj, H=H, W=W, cdelt=[-cd, cdy], crval=crval, crpix=crpix)
    w = make_wcs(base)
    m = min(H, W)
    circles = []
    for _ in range(rng.choice([1, 2])):      # off-centre, so mirrored / rotated masks differ
        ang = rng.uniform(0, 2 * math.pi)
        off = m * (rng.uniform(0.3, 0.42) if wide else rng.uniform(0.15, 0.3))
        x, y = crpix[0] + off * math.cos(ang), crpix[1] + off * math.sin(ang)
        ra, dec = w.wcs_pix2world([[x, y]], 1)[0]
        if not (np.isfinite(ra) and np.isfinite(dec) and abs(dec) <= 89.9):
            ra, dec = crval
        circles.append([float(ra), float(dec), float(m * min(cd, cdy) * rng.uniform(0.15, 0.3))])
    depth = max(3, min(12, int(math.ceil(math.log2(58.63 / (0.6 * min(cd, cdy)))))))
    base['region'] = dict(depth=depth, circles=circles, polys=[])
    # (LATPOLE cannot change a zenithal mapping; it is set at random once and left alone)
    dims = ['sx', 'sy', 'rot', 'lonpole'] + (['pv', 'pv'] if sin else [])
    rng.shuffle(dims)
    st = dict(sx=rng.choice([-1, 1]), sy=rng.choice([-1, 1]), rot=0.0, pv=None, lonpole=None,
              latpole=rng.choice([None, None, 90.0, round(rng.uniform(-80, 80), 1)]))
    steps = []
    for t in range(nsteps or (2 * len(dims) + 1)):
        if t:
            dim = dims[(t - 1) % len(dims)]
            if dim in ('sx', 'sy'):
                st[dim] = -st[dim]
            elif dim == 'rot':
                st['rot'] = rng.choice([v for v in (0.0, 90.0, 180.0, 270.0, round(rng.uniform(10, 80), 1)) if v != st['rot']])
            elif dim == 'pv':
                st['pv'] = None if (st['pv'] and rng.random() < 0.5) else \
                    [round(rng.choice([-1, 1]) * rng.uniform(0.3, 1.0), 3), round(rng.choice([-1, 1]) * rng.uniform(0.3, 1.0), 3)]
            elif dim == 'lonpole':
                st['lonpole'] = rng.choice([v for v in (None, 150.0, 210.0, 90.0, 0.0, round(rng.uniform(100, 260), 1))
                                            if v != st['lonpole']])
            elif dim == 'latpole':
                st['latpole'] = rng.choice([v for v in (None, 90.0, 0.0, round(rng.uniform(-80, 80), 1)) if v != st['latpole']])
        c = dict(base, cdelt=[st['sx'] * cd, st['sy'] * cdy], rot=st['rot'], negate=rng.random() < 0.5,
                 dtype=rng.choice(['f4', 'f8']), prenan=rng.random() < 0.2, dseed=rng.randint(0, 2 ** 30),
                 fname='hist')
        for k in ('pv', 'lonpole', 'latpole'):
            if st[k] is not None:
                c[k] = st[k]
        e = rng.random()
        if e < 0.45:
            c['entry'], c['shape'] = 'plane', [H, W]
            c['layout'] = rng.choice(['native', 'bigendian', 'fortran', 'view'])
        else:
            c['entry'] = 'file' if e < 0.92 else 'cli'
            c['shape'] = rng.choice([[H, W], [H, W], [rng.randint(2, 3), H, W], [1, 1, H, W]])
        steps.append(c)
    return dict(kind='history', steps=steps)


def standalone_outcome(c):
    """the outcome of one image case in a FRESH python process (no earlier calls)"""
    import subprocess
    import sys
    code = ("import sys, json; sys.path.insert(0, %r); import common, corr_C10; common.use_repo(); corr_C10.quiet();"
            "ctx = common.Ctx('C10', 'quick', 0); ctx.driver_ok = False;"
            "o = corr_C10.eval_images(ctx, [json.loads(sys.stdin.read())], record=False, use_lean=False, shrink=False);"
            "ctx.cleanup(); print('OUTCOME', o[0])") % os.path.dirname(os.path.abspath(__file__))
    r = subprocess.run([sys.executable, '-W', 'ignore', '-c', code], input=json.dumps(c), capture_output=True,
                       text=True, timeout=600)
    for line in r.stdout.splitlines():
        if line.startswith('OUTCOME'):
            return line.split()[1]
    return 'crash'


def eval_history(ctx, hist, record=True):
    """run the steps in order in this process.  A failing step that passes on its own in a fresh
    process is reported as history dependence, with the history minimised to a pair of calls."""
    steps = hist['steps']
    saved = ctx.failures
    ctx.failures = []
    try:
        outs = eval_images(ctx, steps, record=record, use_lean=True, shrink=False)
        local = ctx.failures
    finally:
        ctx.failures = saved
    if record:
        ctx.count('history')
        ctx.count('history-steps', len(steps))
        prev = None
        for c in steps:
            try:
                own = spec_sets(dict(c, negate=False), image_oracle(ctx, c)['grid'])['own']
            except Skip:
                prev = None
                continue
            if prev is not None:
                d = [k for k in ('cdelt', 'rot', 'pv', 'lonpole', 'latpole') if prev[0].get(k) != c.get(k)]
                ctx.count('history-transition/' + '+'.join(d) + ('/visible' if (own != prev[1]).any() else '/same-mask'))
            prev = (c, own)
    bad = [k for k, o in enumerate(outs) if o in ('spec', 'corr')]
    if not bad:
        return None
    if not record:
        return outs[bad[0]]
    k = bad[0]
    alone = standalone_outcome(steps[k])
    if alone in ('spec', 'corr'):
        # fails without any history as well: an ordinary failure of that image
        ctx.failures.extend(f for f in local if f['case'] is steps[k] or f['case'] == steps[k])
        if not any(f['case'] == steps[k] for f in local):
            ctx.failures.extend(local[:1])
        return outs[k]

    def fails(seq):
        o = eval_images(ctx, seq, record=False, use_lean=False, shrink=False)
        return o[-1] == 'spec'
    seq = steps[:k + 1]
    for j in range(k - 1, -1, -1):
        if fails([steps[j], steps[k]]):
            seq = [steps[j], steps[k]]
            break
    # make both calls as plain as they can be while the second still fails
    for key, val in (('prenan', False), ('layout', 'native'), ('dtype', 'f4')):
        t = [dict(x, **{key: val}) if key in x else x for x in seq]
        if fails(t):
            seq = t
    t = [dict(x, shape=[x['H'], x['W']]) if x['entry'] != 'plane' else x for x in seq]
    if fails(t):
        seq = t
    ctx.failures = []
    try:
        eval_images(ctx, seq, record=True, use_lean=False, shrink=False)
        got = ctx.failures
    finally:
        ctx.failures = saved
    src = (got or local)[-1 if got else 0]
    last = seq[-1]
    ctx.fail('spec', dict(kind='history', steps=seq),
             f"call {len(seq)} of this sequence of {len(seq)} calls in one process gives a wrong mask, although the "
             f"same call alone in a fresh process is right (the result depends on the earlier call"
             + (": the two headers differ only in " + ", ".join(
                 f"{k} {seq[0].get(k)} -> {last.get(k)}" for k in ('cdelt', 'rot', 'pv', 'lonpole', 'latpole')
                 if seq[0].get(k) != last.get(k)) if len(seq) == 2 else "")
             + "). " + src['detail'],
             dict(src.get('signature') or {}, what='history-dependence'))
    return 'spec'


def one_line_cube(rng):
    """a cube of one-row / one-column images: the plane axis must not be taken for an image axis"""
    c = gen_image(rng, True)
    if rng.random() < 0.5:
        c['H'] = 1
    else:
        c['W'] = 1
    c['crpix'] = [round(rng.uniform(1, c['W']), 2), round(rng.uniform(1, c['H']), 2)]
    w = make_wcs(c)
    n = max(c['H'], c['W'])
    x, y = (rng.uniform(1, n), 1.0) if c['H'] == 1 else (1.0, rng.uniform(1, n))
    ra, dec = w.wcs_pix2world([[x, y]], 1)[0]
    if not (np.isfinite(ra) and np.isfinite(dec) and abs(dec) <= 89.9):
        ra, dec = c['crval']
    px = min(abs(c['cdelt'][0]), abs(c['cdelt'][1]))
    c['region']['circles'] = [[float(ra), float(dec), float(px * max(1.2, n * rng.uniform(0.15, 0.3)))]]
    c['region']['polys'] = []
    c['entry'] = 'file'
    c['shape'] = [rng.randint(2, 5), c['H'], c['W']]
    return c


# ------------------------------------------------------------------------------------------------
# table cases
# ------------------------------------------------------------------------------------------------

def gen_table(rng, quick, n=None):
    depth = rng.choice([6, 8, 9])
    polar = rng.random() < 0.35      # region contains the north pole: exposes the non-finite guard
    if polar:
        circles = [[rng.uniform(0, 360), 90.0, rng.uniform(2, 10)]]
        cra, cdec, crad = circles[0]
    else:
        cra, cdec, crad = rng.uniform(0, 360), rng.uniform(-70, 70), rng.uniform(1, 8)
        circles = [[cra, cdec, crad]]
    if n is None:
        n = rng.choice([0, 0, 1, 2, 3, 5, 11, 40, 120 if quick else 400])
    rows = []
    for k in range(n):
        t = rng.random()
        if t < 0.45:      # around the circle, both sides
            r = crad * rng.uniform(0.0, 2.0)
            a = rng.uniform(0, 2 * math.pi)
            dec = max(-89.9, min(89.99, cdec + r * math.sin(a))) if not polar else 90.0 - r
            ra = (cra + r * math.cos(a) / max(0.05, math.cos(math.radians(dec)))) if not polar else math.degrees(a)
        elif t < 0.7:
            ra, dec = rng.uniform(-30, 400), rng.uniform(-90, 90)
        elif t < 0.8:
            ra, dec = float('nan'), rng.uniform(-90, 90)
        elif t < 0.88:
            ra, dec = rng.uniform(0, 360), float('nan')
        elif t < 0.93:
            ra, dec = float('nan'), float('nan')
        elif t < 0.96:
            ra, dec = rng.choice([float('inf'), float('-inf')]), rng.uniform(-90, 90)
        else:
            ra, dec = cra, cdec if not polar else 90.0
        rows.append([float(ra), float(dec)])
    # adversarial for the undefined-coordinate guard: healpy maps an infinite longitude to some
    # (garbage) pixel instead of raising; put a circle there so that a weakened guard in
    # sky_within ("any NaN" instead of "not all finite") shows up as a row treated as inside
    if not polar:
        infrows = [(ra, dec) for ra, dec in rows if math.isinf(ra) and math.isfinite(dec)][:2]
        if infrows:
            # computed in a child process: healpy may crash on non-finite input
            code = ("import healpy as hp, math, json, sys\n"
                    "out=[]\n"
                    "for ra,dec in json.loads(sys.argv[1]):\n"
                    "    ra=float(ra)\n"
                    "    pix=hp.ang2pix(2**%d, math.pi/2-math.radians(dec), math.radians(ra), nest=True)\n"
                    "    th,ph=hp.pix2ang(2**%d,int(pix),nest=True)\n"
                    "    out.append([math.degrees(ph), 90.0-math.degrees(th), 3.0])\n"
                    "print(json.dumps(out))\n" % (depth, depth))
            import json as _json
            import subprocess as _sp
            import sys as _sys
            try:
                arg = _json.dumps([[('inf' if ra > 0 else '-inf'), dec] for ra, dec in infrows])
                r = _sp.run([_sys.executable, '-c', code, arg], capture_output=True, text=True, timeout=60)
                if r.returncode == 0:
                    for cc in _json.loads(r.stdout.strip().splitlines()[-1]):
                        if all(math.isfinite(v) for v in cc):
                            circles.append([float(v) for v in cc])
            except Exception:
                pass
    names = rng.choice([['ra', 'dec'], ['ra', 'dec'], ['RAJ2000', 'DEJ2000'], ['lon', 'lat'], ['dec', 'ra']])
    c = dict(kind='table', region=dict(depth=depth, circles=circles, polys=[]), coords=rows, names=names,
             negate=rng.random() < 0.5, unit=rng.choice([None, None, 'deg']), f32=rng.random() < 0.1,
             colorder=rng.choice(['first', 'last', 'mixed']))
    e = rng.random()
    if e < 0.6:
        c['entry'], c['fmt'] = 'table', None
    else:
        c['entry'] = 'catalog' if e < 0.92 else 'cli'
        c['fmt'] = rng.choice(['fits', 'fits', 'csv'])   # write_table cannot auto-identify .xml/.vot (catalogs.py, not C10)
    return c


def gen_masked_table(rng, k):
    """catalogues with EMPTY coordinate cells (masked columns) next to literal NaN, with regions that
    cover the position obtained by putting 0 (or the hidden value) in place of the missing coordinate:
    (0, 0), RA = 0, the equator.  Entries x input formats are enumerated (k), not sampled."""
    combos = [('table', None, None), ('catalog', 'csv', 'csv'), ('catalog', 'tab', 'csv'), ('catalog', 'fits', 'fits'),
              ('catalog', 'xml', 'fits'), ('cli', 'csv', 'fits'), ('table', None, None), ('catalog', 'tab', 'fits'),
              ('catalog', 'csv', 'csv'), ('cli', 'tab', 'csv'), ('catalog', 'xml', 'csv'), ('catalog', 'fits', 'csv')]
    entry, fmt, ofmt = combos[k % len(combos)]
    kind = ['origin', 'ra0', 'equator'][(k // 2) % 3]
    depth = rng.choice([6, 8])
    r = rng.uniform(3, 8)
    if kind == 'origin':
        cra, cdec = rng.choice([0.0, 0.4, 359.7]), rng.uniform(-0.5, 0.5)
    elif kind == 'ra0':
        cra, cdec = rng.choice([0.0, 359.5, 0.8]), rng.uniform(-60, 60)
    else:
        cra, cdec = rng.uniform(5, 355), rng.uniform(-0.8, 0.8)
    rows = []
    for _ in range(rng.randint(6, 14)):
        t = rng.random()
        a = (cra + rng.uniform(-0.6, 0.6) * r) % 360.0
        d = max(-89.0, min(89.0, cdec + rng.uniform(-0.6, 0.6) * r))
        if t < 0.2:
            rows.append([None, d])                  # no RA; (0, d) is inside for origin / ra0
        elif t < 0.4:
            rows.append([a, None])                  # no Dec; (a, 0) is inside for origin / equator
        elif t < 0.5:
            rows.append([None, None])
        elif t < 0.6:
            rows.append([float('nan'), d] if rng.random() < 0.5 else [a, float('nan')])
        elif t < 0.8:
            rows.append([a, d])                     # inside
        else:
            rows.append([(cra + 180 + rng.uniform(-40, 40)) % 360, rng.uniform(-80, 80)])
    names = rng.choice([['ra', 'dec'], ['RAJ2000', 'DEJ2000'], ['lon', 'lat']])
    return dict(kind='table', region=dict(depth=depth, circles=[[cra, cdec, r]], polys=[]), coords=rows, names=names,
                negate=bool(k % 2), unit=None, f32=False, colorder=rng.choice(['first', 'last', 'mixed']),
                entry=entry, fmt=fmt, ofmt=ofmt, hidden=('inside' if (entry == 'table' and k % 4 >= 2) else 'zero'))


def gen_deep_table(rng, k):
    """regions at HEALPix depth 15 / 16 (pixel numbers beyond 2^32) and an all-sky table whose rows
    include, for several region pixels p, the centres of the pixels p + k*2^32 that exist (the same
    offset inside other base cells, tens of degrees away): they are outside and must stay."""
    import healpy as hp
    depth = 15 + (k % 2)
    cra, cdec = rng.uniform(0, 360), rng.uniform(-80, 80)
    spec = dict(depth=depth, circles=[[cra, cdec, rng.uniform(8, 30) / 3600.0]], polys=[])
    pix = pixel_set(build_region(spec))
    nside = 2 ** depth
    npix = 12 * nside ** 2
    rows = []

    def centre(q):
        th, ph = hp.pix2ang(nside, int(q), nest=True)
        return [float(np.degrees(ph)), float(90.0 - np.degrees(th))]
    for p in [int(pix[rng.randrange(len(pix))]) for _ in range(4)] if len(pix) else []:
        rows.append(centre(p))
        for kk in range(-11, 12):
            q = p + kk * 2 ** 32
            if kk and 0 <= q < npix:
                rows.append(centre(q))
    for _ in range(10):
        rows.append([rng.uniform(0, 360), rng.uniform(-90, 90)])
    rows.append([float('nan'), 0.0])
    rng.shuffle(rows)
    entry, fmt = [('table', None), ('catalog', 'fits'), ('table', None), ('catalog', 'csv'), ('cli', 'fits')][k % 5]
    return dict(kind='table', region=spec, coords=rows, names=rng.choice([['ra', 'dec'], ['RAJ2000', 'DEJ2000']]),
                negate=bool((k // 2) % 2), unit=None, f32=False, colorder='mixed', entry=entry, fmt=fmt)


def large_cases(rng):
    """one deliberately large input per size-like dimension: > 2^16 pixels in a plane, > 2^16 rows"""
    H, W = 2 ** 13 + 37, 8
    c = dict(kind='image', proj='SIN', H=H, W=W, cdelt=[-0.002, 0.002], crval=[rng.uniform(0, 360), rng.uniform(-60, 60)],
             crpix=[4.3, H / 2 + 0.4])
    ra, dec = make_wcs(c).wcs_pix2world([[4.0, rng.uniform(0.3, 0.7) * H]], 1)[0]
    c.update(region=dict(depth=12, circles=[[float(ra), float(dec), 0.2 * H * 0.002]], polys=[]), negate=rng.random() < 0.5,
             dtype='f4', prenan=False, dseed=rng.randint(0, 2 ** 30), entry=rng.choice(['plane', 'file']), shape=[H, W])
    n = 2 ** 16 + 4321
    cra, cdec, crad = rng.uniform(0, 360), rng.uniform(-60, 60), 25.0
    rs = np.random.RandomState(rng.randint(0, 2 ** 30))
    ra = rs.uniform(0, 360, n)
    dec = np.degrees(np.arcsin(rs.uniform(-1, 1, n)))
    t = dict(kind='table', region=dict(depth=7, circles=[[cra, cdec, crad]], polys=[]),
             coords=np.c_[ra, dec].tolist(), names=['ra', 'dec'], negate=rng.random() < 0.5, unit=None, f32=False,
             colorder='first', entry='table', fmt=None)
    return [c], [t]


class debug_logging:
    """root logger and the 'Aegean' logger at DEBUG with silent handlers (what `--debug` or a host
    application would do); results must not depend on it"""

    def __init__(self, on):
        self.on = on

    def __enter__(self):
        if not self.on:
            return
        import logging
        self.saved = []
        self.disabled = logging.root.manager.disable
        logging.disable(logging.NOTSET)
        for name in (None, 'Aegean'):
            lg = logging.getLogger(name)
            self.saved.append((lg, lg.level, lg.handlers[:], lg.propagate))
            lg.handlers = [logging.NullHandler()]
            lg.setLevel(logging.DEBUG)

    def __exit__(self, *a):
        if not self.on:
            return
        import logging
        for lg, lvl, hs, prop in self.saved:
            lg.handlers = hs
            lg.setLevel(lvl)
        logging.disable(self.disabled)


def make_table(c):
    from astropy.table import Table, Column
    from astropy.table import MaskedColumn
    n = len(c['coords'])
    dt = np.float32 if c.get('f32') else np.float64
    # a coordinate given as None is an EMPTY cell: a masked element.  What is stored underneath the
    # mask is the caller's business: 0.0 (what the text readers leave there) or a position inside the region
    hid = [0.0, 0.0]
    if c.get('hidden') == 'inside' and c['region']['circles']:
        hid = [c['region']['circles'][0][0], c['region']['circles'][0][1]]
    msk = np.array([[v is None for v in row] for row in c['coords']], dtype=bool).reshape(n, 2)
    co = np.array([[hid[k] if v is None else v for k, v in enumerate(row)] for row in c['coords']],
                  dtype=float).reshape(n, 2)
    if msk.any():
        ra = MaskedColumn(co[:, 0].astype(dt), mask=msk[:, 0], name=c['names'][0], unit=c.get('unit'))
        dec = MaskedColumn(co[:, 1].astype(dt), mask=msk[:, 1], name=c['names'][1], unit=c.get('unit'))
    else:
        ra = Column(co[:, 0].astype(dt), name=c['names'][0], unit=c.get('unit'))
        dec = Column(co[:, 1].astype(dt), name=c['names'][1], unit=c.get('unit'))
    ids = Column(np.arange(n, dtype=np.int64) * 7 + 3, name='id')
    flux = Column(np.arange(n, dtype=np.float64) * 0.37 - 1.0, name='flux')
    tag = Column(np.array(['s%04d' % (k * 13 % 997) for k in range(n)], dtype='U5'), name='tag')
    order = dict(first=[ra, dec, ids, flux, tag], last=[ids, flux, tag, ra, dec], mixed=[ids, dec, flux, ra, tag])
    return Table(order[c.get('colorder', 'first')])


def table_codes(c, tab, region):
    """codes from the coordinate values the implementation is handed (so float32 / file round trips count)"""
    pixset = pixel_set(region)
    # an empty / masked cell is an undefined coordinate, whatever is stored under the mask
    ra = np.ma.filled(np.ma.asarray(tab[c['names'][0]]).astype(float), np.nan)
    dec = np.ma.filled(np.ma.asarray(tab[c['names'][1]]).astype(float), np.nan)
    fin, mem = membership(pixset, c['region']['depth'], ra, dec)
    # float32 coordinate columns are converted to radians in float32 by the implementation (1e-5 deg)
    eps = 1e-4 if c.get('f32') else 1e-9
    cd = np.maximum(np.cos(np.radians(np.where(fin, dec, 0.0))), 1e-6)
    for dx, dy in ((eps, 0), (-eps, 0), (0, eps), (0, -eps)):
        _, m2 = membership(pixset, c['region']['depth'], ra + dx / cd, np.clip(dec + dy, -90, 90))
        if np.any((m2 != mem) & fin):
            raise Skip('a row lies within 1e-9 deg of the region boundary')
    return ''.join(np.where(~fin, 'n', np.where(mem, '1', '0')).tolist()), pole_bit(pixset, c['region']['depth'])


def fingerprints(tab):
    """one 60-bit fingerprint per row over ALL columns (values normalised: strings stripped, floats as
    bit patterns with every NaN / masked element alike, integers as integers); column-wise for speed"""
    toks = []
    for k in sorted(tab.colnames):
        col = tab[k]
        kind = col.dtype.kind
        if kind in 'SU':
            vals = [('s', (v.decode() if isinstance(v, bytes) else str(v)).strip())
                    for v in np.ma.filled(np.ma.asarray(col), '').tolist()]
        elif kind == 'f':
            arr = np.ma.filled(np.ma.asarray(col).astype(np.float64), np.nan)
            vals = [('f', 'nan' if v != v else common.f2h(v)) for v in arr.tolist()]
        else:
            m = np.ma.getmaskarray(np.ma.asarray(col))
            vals = [('f', 'nan') if mk else ('i', int(v)) for v, mk in zip(np.ma.getdata(np.ma.asarray(col)).tolist(), m.tolist())]
        toks.append(vals)
    return [int(hashlib.sha1(repr(list(r)).encode()).hexdigest()[:15], 16) for r in zip(*toks)] if toks else []


def run_table_impl(ctx, c, region):
    """returns (input table as the implementation saw it, output table)"""
    from AegeanTools import MIMAS
    tab = make_table(c)
    if c['entry'] == 'table':
        with warnings.catch_warnings():
            warnings.simplefilter('ignore')
            out = MIMAS.mask_table(region, tab, negate=c['negate'], racol=c['names'][0], deccol=c['names'][1])
        return tab, out
    from AegeanTools.catalogs import load_table
    d = ctx.tmpdir()
    tag = hashlib.sha1(json.dumps(c, sort_keys=True).encode()).hexdigest()[:12]
    ofmt = c.get('ofmt') or (c['fmt'] if c['fmt'] in ('fits', 'csv') else 'csv')
    infile, outfile, regfile = (os.path.join(d, f'{tag}_{s}') for s in ('in.' + c['fmt'], 'out.' + ofmt, 'reg.mim'))
    try:
        with warnings.catch_warnings():
            warnings.simplefilter('ignore')
            if c['fmt'] == 'xml':
                tab.write(infile, format='votable', overwrite=True)
            elif c['fmt'] == 'tab':
                tab.write(infile, format='ascii.tab', overwrite=True)
            else:
                tab.write(infile, overwrite=True)
            seen = load_table(infile)           # what the implementation will read
            region.save(regfile)
            if c['entry'] == 'cli':
                from AegeanTools.CLI import MIMAS as cli
                args = ['--maskcat', regfile, infile, outfile, '--colnames', c['names'][0], c['names'][1]] + \
                       (['--negate'] if c['negate'] else [])
                cli.main(args)
            else:
                MIMAS.mask_catalog(regfile, infile, outfile, negate=c['negate'], racol=c['names'][0], deccol=c['names'][1])
            out = load_table(outfile)
    finally:
        for f in (infile, outfile, regfile):
            if os.path.exists(f):
                os.remove(f)
    return seen, out


def eval_tables(ctx, cases, record=True, use_lean=True, shrink=True):
    with debug_logging(any(c.get('debug') for c in cases)):
        return _eval_tables(ctx, cases, record, use_lean, shrink)


def _eval_tables(ctx, cases, record, use_lean, shrink):
    todo, lines = [], []
    outcomes = [None] * len(cases)
    for n, c in enumerate(cases):
        region = build_region(c['region'])
        sig = dict(site='mask_table' if c['entry'] == 'table' else 'mask_catalog', what='rows',
                   empty=len(c['coords']) == 0)
        if c.get('debug'):
            sig['logging'] = 'DEBUG'
        if c['region']['depth'] >= 15:
            sig['deep_region'] = True
        # harness-side preparation (not the implementation): an unreadable input file is not a finding
        if c['entry'] != 'table' and len(c['coords']) == 0 and c['fmt'] == 'csv':
            c = dict(c, fmt='fits')
        try:
            seen, out = run_table_impl(ctx, c, region)
        except Exception as e:
            outcomes[n] = 'spec'
            if record:
                ctx.fail('spec', c, f"{c['entry']} raised {type(e).__name__}: {str(e)[:200]} on a table of "
                                    f"{len(c['coords'])} rows", dict(sig, what='raises', error=type(e).__name__))
                ctx.case(dict(kind='table', rows=len(c['coords']), outcome='raised', entry=c['entry']))
            continue
        try:
            codes, pole = table_codes(c, seen, region)
        except Skip:
            ctx.count('skipped-boundary-ambiguous')
            outcomes[n] = 'skip'
            continue
        fin, fout = fingerprints(seen), fingerprints(out)
        py_ok = (fout == [f for f, k in zip(fin, codes) if (k == '1') == c['negate']]) and \
            list(out.colnames) == list(seen.colnames)
        line = None
        if ctx.driver_ok and use_lean:
            line = (f"table {int(c['negate'])} {int(pole)} {codes or '-'} {len(fin)} " + ' '.join('%x' % f for f in fin)
                    + f" {len(fout)} " + ' '.join('%x' % f for f in fout))
            lines.append(line)
        todo.append((n, c, codes, fin, fout, py_ok, sig, len(lines) - 1 if line else None, seen, out))
    outs = ctx.driver.batch(lines) if lines else []
    for n, c, codes, fin, fout, py_ok, sig, li, seen, out in todo:
        model = None
        if li is not None:
            v, _, m = outs[li].partition(' |')
            if v.strip() not in ('ok', 'violated'):
                raise common.LeanError(f"driver answered {outs[li][:80]!r}")
            cols_ok = list(out.colnames) == list(seen.colnames)
            if (v.strip() == 'ok' and cols_ok) != py_ok:
                raise RuntimeError(f"Lean Spec verdict {v!r} and the Python evaluation {py_ok} disagree on {c}")
            model = [int(x, 16) for x in m.split()]
        if not py_ok:
            outcomes[n] = 'spec'
            if record and shrink and len(c['coords']) > 3 and getattr(ctx, '_c10_tshrunk', 0) < 2:
                ctx._c10_tshrunk = getattr(ctx, '_c10_tshrunk', 0) + 1
                small = shrink_table(ctx, c)
                if small is not c and eval_tables(ctx, [small], record=True, use_lean=use_lean, shrink=False)[0] == 'spec':
                    continue
            if record:
                want = [k for k, code in enumerate(codes) if (code == '1') == c['negate']]
                got = [fin.index(f) if f in fin else -1 for f in fout]
                wrong = sorted(set(want) ^ set(got))
                k = wrong[0] if wrong else None
                nanrow = bool(k is not None and k >= 0 and codes[k] == 'n')
                sig = dict(sig, empty_cell_row=bool(nanrow and k < len(c['coords']) and None in c['coords'][k]))
                detail = (f"rows kept {got[:20]} but exactly the rows {want[:20]} must be kept (negate={c['negate']})"
                          + (f"; row {k} has coordinates {c['coords'][k]} ({'undefined' if nanrow else 'inside' if codes[k] == '1' else 'outside'})"
                             if k is not None and k >= 0 else "; a surviving row was altered or columns changed"))
                ctx.fail('spec', c, detail, dict(sig, undefined_coordinate_row=nanrow))
        elif model is not None and model != fout:
            outcomes[n] = 'corr'
            if record:
                ctx.fail('corr', c, "implementation and Lean model keep different rows", sig)
        if record:
            nt = (len(codes) == 0) or all(ch in codes for ch in '10n')
            ctx.count(f"table/{c['entry']}" + (f"/{c['fmt']}" if c['fmt'] else ''))
            if len(codes) == 0:
                ctx.count('table-empty')
            if 'n' in codes:
                ctx.count('table-with-undefined-coordinates')
            if any(None in r for r in c['coords']):
                ctx.count('table-with-empty-coordinate-cells' + (f"/{c['fmt']}" if c['fmt'] else '/in-memory'))
            if c['names'] != ['ra', 'dec']:
                ctx.count('table-renamed-columns')
            ctx.case(dict(kind='table', rows=len(codes), codes=codes[:40], names=c['names'], negate=c['negate'],
                          entry=c['entry'], fmt=c['fmt'], kept=len(fout)),
                     nontrivial_key=json.dumps(c, sort_keys=True) if nt else None, sample_every=31)
    return outcomes


# ------------------------------------------------------------------------------------------------
# index-list probe, corpus, entry points
# ------------------------------------------------------------------------------------------------

def index_probe(ctx):
    """the model's index list against the list the implementation hands to the WCS (recorded by a stub WCS)"""
    from AegeanTools import MIMAS

    class Stub:
        def __init__(self):
            self.calls = []

        def wcs_pix2world(self, idx, origin):
            self.calls.append((np.array(idx).copy(), origin))
            return np.zeros((len(idx), 2))

        all_pix2world = wcs_pix2world

    class NoRegion:
        def sky_within(self, ra, dec, degin=False):
            return np.zeros(len(ra), dtype=bool)

    shapes = [(1, 1), (1, 5), (4, 1), (2, 3), (5, 4), (7, 7)]
    outs = ctx.driver.batch([f"index {h} {w}" for h, w in shapes]) if ctx.driver_ok else [None] * len(shapes)
    for (h, w), ml in zip(shapes, outs):
        st = Stub()
        try:
            MIMAS.mask_plane(np.zeros((h, w)), st, NoRegion(), False)
        except Exception as e:
            ctx.note(f"index probe skipped: mask_plane with a stub WCS raised {type(e).__name__}")
            return
        if len(st.calls) != 1:
            continue     # a rewrite that calls the WCS differently: not judged here
        idx, origin = st.calls[0]
        fits_xy = (np.asarray(idx, dtype=float) + (1 - origin)).astype(int).ravel().tolist()
        c = dict(kind='index', H=h, W=w)
        ctx.count('index-probe')
        ctx.case(dict(c, origin=int(origin)))
        if ml is not None:
            mi = [int(x) + 1 for x in ml.split()]     # the model's wcsOrigin is 0: FITS = index + 1
            if mi != fits_xy:
                ctx.fail('corr', c, f"FITS coordinates handed to the WCS: implementation {fits_xy[:8]}… (origin {origin}), "
                                    f"model {mi[:8]}…", dict(site='mask_plane', what='wcs-argument'))


def corpus_cases():
    d = os.path.join(common.VERIF, 'corpus', 'C10')
    out = []
    if os.path.isdir(d):
        for fn in sorted(os.listdir(d)):
            if fn.endswith('.json'):
                out.append(json.load(open(os.path.join(d, fn)))['case'])
    return out


def quiet():
    import logging
    logging.disable(logging.WARNING)


def run(ctx):
    common.use_repo()
    quiet()
    rng = ctx.rng
    corp = corpus_cases()
    eval_images(ctx, [c for c in corp if c['kind'] == 'image'])
    eval_tables(ctx, [c for c in corp if c['kind'] == 'table'])
    for h in corp:
        if h['kind'] == 'history':
            eval_history(ctx, h)
        elif h['kind'] == 'reghist':
            eval_reghist(ctx, h)
    for _ in range(8 if ctx.quick else 50):
        eval_reghist(ctx, gen_reghist(rng, ctx.quick))
    n_img = 70 if ctx.quick else 1300
    n_small = 30 if ctx.quick else 600
    n_line = 6 if ctx.quick else 100
    n_tab = 60 if ctx.quick else 1000
    imgs = [gen_image(rng, ctx.quick) for _ in range(n_img)] + \
           [gen_image(rng, ctx.quick, small=True) for _ in range(n_small)] + \
           [one_line_cube(rng) for _ in range(n_line)]
    for k in range(0, len(imgs), 40):
        eval_images(ctx, imgs[k:k + 40])
    tabs = [gen_table(rng, ctx.quick) for _ in range(n_tab)]
    eval_tables(ctx, tabs)
    eval_tables(ctx, [gen_masked_table(rng, k) for k in range(24 if ctx.quick else 300)])
    eval_tables(ctx, [gen_deep_table(rng, k) for k in range(10 if ctx.quick else 100)])
    for _ in range(8 if ctx.quick else 60):
        eval_history(ctx, gen_history(rng, ctx.quick))
    # large inputs (Python Spec only: the driver's table lookup is quadratic)
    for _ in range(1 if ctx.quick else 3):
        li, lt = large_cases(rng)
        eval_images(ctx, li, use_lean=False, shrink=False)
        eval_tables(ctx, lt, use_lean=False)
        ctx.count('large-image(>2^16 pixels)')
        ctx.count('large-table(>2^16 rows)')
    # debug slice: the corpus and a sample again with the loggers at DEBUG
    dbg_i = [dict(c, debug=True) for c in corp if c['kind'] == 'image'] + \
            [dict(gen_image(rng, True, small=(k % 2 == 0)), debug=True) for k in range(10 if ctx.quick else 60)]
    dbg_t = [dict(c, debug=True) for c in corp if c['kind'] == 'table'] + \
            [dict(gen_table(rng, True), debug=True) for _ in range(8 if ctx.quick else 40)] + \
            [dict(gen_masked_table(rng, k), debug=True) for k in range(6)] + [dict(gen_deep_table(rng, 1), debug=True)]
    eval_images(ctx, dbg_i)
    eval_tables(ctx, dbg_t)
    h = gen_history(rng, True)
    eval_history(ctx, dict(h, steps=[dict(x, debug=True) for x in h['steps']]))
    ctx.count('debug-logging-slice', len(dbg_i) + len(dbg_t) + len(h['steps']))
    if ctx.driver_ok:
        index_probe(ctx)


def shrink_image(ctx, c):
    """reduce the image (keeping header and region) while the implementation still violates the Spec"""
    def fails(cc):
        return eval_images(ctx, [cc], record=False, use_lean=False)[0] == 'spec'
    cur = dict(c)
    if len(cur['shape']) > 2 and not (1 in cur['shape'][-2:]):
        t = dict(cur, shape=[cur['H'], cur['W']])
        if fails(t):
            cur = t
    for key in ('prenan',):
        t = dict(cur, prenan=False)
        if fails(t):
            cur = t
    changed = True
    while changed:
        changed = False
        for dim in ('H', 'W'):
            n = cur[dim]
            for m in sorted({max(1, n // 2), max(1, n - 1)}):
                if m < n:
                    t = dict(cur)
                    t[dim] = m
                    t['shape'] = cur['shape'][:-2] + [t['H'], t['W']]
                    if fails(t):
                        cur, changed = t, True
                        break
                    # drop rows / columns from the low side instead (the reference pixel moves with them)
                    t = dict(t, crpix=[cur['crpix'][0] - ((n - m) if dim == 'W' else 0),
                                       cur['crpix'][1] - ((n - m) if dim == 'H' else 0)])
                    if fails(t):
                        cur, changed = t, True
                        break
    return cur


def shrink_table(ctx, c):
    """delete rows while the implementation still violates the Spec"""
    def fails(cc):
        return eval_tables(ctx, [cc], record=False, use_lean=False, shrink=False)[0] == 'spec'
    cur = c
    chunk = max(1, len(cur['coords']) // 2)
    while chunk >= 1:
        k, changed = 0, False
        while k < len(cur['coords']):
            t = dict(cur, coords=cur['coords'][:k] + cur['coords'][k + chunk:])
            if len(t['coords']) < len(cur['coords']) and fails(t):
                cur, changed = t, True
            else:
                k += chunk
        if chunk == 1 and not changed:
            break
        chunk = chunk // 2 if chunk > 1 else (1 if changed else 0)
    return cur


def search(ctx):
    """implementation vs Spec; the first violating image is shrunk and reported"""
    common.use_repo()
    quiet()
    if any(f['kind'] == 'spec' for f in ctx.failures):
        return
    rng = ctx.rng
    for rnd in range(12 if ctx.quick else 40):
        cases = [gen_image(rng, True, small=(k % 3 == 0)) for k in range(25)]
        outs = eval_images(ctx, cases, record=False, use_lean=False)
        for c, o in zip(cases, outs):
            if o == 'spec':
                eval_images(ctx, [shrink_image(ctx, c)], record=True, use_lean=False)
                return
    tabs = [gen_table(rng, True) for _ in range(200)]
    saved = ctx.driver_ok
    ctx.driver_ok = False
    try:
        eval_tables(ctx, tabs)
    finally:
        ctx.driver_ok = saved


def replay(ctx, rec):
    common.use_repo()
    quiet()
    c = rec['case']
    if c.get('kind') == 'image':
        eval_images(ctx, [c])
    elif c.get('kind') == 'table':
        eval_tables(ctx, [c])
    elif c.get('kind') == 'history':
        eval_history(ctx, c)
    elif c.get('kind') == 'reghist':
        eval_reghist(ctx, c)
    elif c.get('kind') == 'index':
        index_probe(ctx)


# ------------------------------------------------------------------------------------------------
# histories on Region objects: every mutator of the Region API interleaved with masking calls,
# each masking call judged against the harness's own footprint of the CURRENT region
# ------------------------------------------------------------------------------------------------

MUTATORS = ['add_circles', 'add_poly', 'add_pixels', 'union', 'without', 'intersect', 'symmetric_difference',
            '_renorm', '_demote_all', 'saveload', 'union_norenorm', 'add_circles_shallow']
MASKERS = ['mask_table', 'sky_within', 'mask_plane', 'mask_file']


def _expand(pix, d, depth):
    """descendants at `depth` of pixels given at depth d <= depth (nested scheme)"""
    pix = np.asarray(pix, dtype=np.int64)
    k = 4 ** (depth - d)
    return (pix[:, None] * k + np.arange(k, dtype=np.int64)[None, :]).ravel()


def _vec(ra, dec):
    import healpy as hp
    return hp.ang2vec(np.pi / 2 - np.radians(dec), np.radians(ra))


def foot_circle(c, d, depth):
    import healpy as hp
    return _expand(hp.query_disc(2 ** d, _vec(c[0], c[1]), np.radians(c[2]), inclusive=True, nest=True), d, depth)


def foot_poly(poly, d, depth):
    import healpy as hp
    v = np.array([_vec(a, b) for a, b in poly])
    return _expand(hp.query_polygon(2 ** d, v, inclusive=True, nest=True), d, depth)


def circle_pixels(c, d):
    """the pixel ids handed to add_pixels: cells at depth d whose centre is in the circle"""
    import healpy as hp
    return [int(p) for p in hp.query_disc(2 ** d, _vec(c[0], c[1]), np.radians(c[2]), inclusive=False, nest=True)]


def gen_reghist(rng, quick):
    depth = rng.choice([7, 8, 9])
    cell = 58.63 / 2 ** depth
    px = round(cell / 0.55, 4)                   # HEALPix cell = 0.55 image pixel: finer than the pixel grid
    H, W = rng.randint(10, 16), rng.randint(12, 20)
    ra0, dec0 = round(rng.uniform(0, 360), 3), round(rng.uniform(-60, 60), 3)
    img = dict(proj=rng.choice(PROJS), H=H, W=W, cdelt=[-px, px], crval=[ra0, dec0],
               crpix=[round(W / 2 + rng.uniform(-1, 1), 2), round(H / 2 + rng.uniform(-1, 1), 2)])
    ext = min(H, W) * px
    w = make_wcs(img)

    def pos(frac=0.45):
        x = img['crpix'][0] + rng.uniform(-frac, frac) * W
        y = img['crpix'][1] + rng.uniform(-frac, frac) * H
        a, d = w.wcs_pix2world([[x, y]], 1)[0]
        return [float(a), float(d)]

    def circle(lo=0.12, hi=0.4):
        return pos(0.3) + [float(ext * rng.uniform(lo, hi))]

    def coords():
        rows = [pos(0.6) for _ in range(rng.randint(8, 16))]
        rows += [[rng.uniform(0, 360), rng.uniform(-90, 90)] for _ in range(3)]
        rows.append([float('nan'), dec0])
        rng.shuffle(rows)
        return rows

    def masker(on):
        op = rng.choice(MASKERS)
        st = dict(op=op, on=on, negate=rng.random() < 0.5)
        if op in ('mask_table', 'sky_within'):
            st['coords'] = coords()
        else:
            st['dseed'] = rng.randint(0, 2 ** 30)
            st['dtype'] = rng.choice(['f4', 'f8'])
            st['planes'] = rng.choice([0, 0, 2]) if op == 'mask_file' else 0
        return st

    steps = [dict(op='add_circles', on='A', circle=circle(0.25, 0.45)),
             dict(op='add_circles', on='B', circle=circle(0.2, 0.4)),
             masker('A'), masker('B')]
    muts = MUTATORS[:]
    rng.shuffle(muts)
    for k, m in enumerate(muts):
        on = 'AB'[k % 2] if rng.random() < 0.7 else rng.choice('AB')
        other = 'B' if on == 'A' else 'A'
        st = dict(op=m, on=on)
        if m in ('add_circles', 'add_circles_shallow'):
            st['circle'] = circle()
            if m == 'add_circles_shallow':
                st['at'] = depth - rng.choice([1, 2])
        elif m == 'add_poly':
            cx, cy = img['crpix'][0] + rng.uniform(-0.25, 0.25) * W, img['crpix'][1] + rng.uniform(-0.25, 0.25) * H
            r = min(H, W) * rng.uniform(0.15, 0.35)
            n = rng.choice([3, 4, 5])
            a0 = rng.uniform(0, 2 * math.pi)
            corners = [[cx + r * math.cos(a0 - 2 * math.pi * t / n), cy + r * math.sin(a0 - 2 * math.pi * t / n)] for t in range(n)]
            st['poly'] = [[float(a), float(d)] for a, d in w.wcs_pix2world(corners, 1)]
        elif m == 'add_pixels':
            st['circle'] = circle(0.1, 0.3)
            st['at'] = depth - rng.choice([0, 1, 2])
        elif m in ('union', 'union_norenorm', 'without', 'intersect', 'symmetric_difference'):
            st['other'] = other
        steps.append(st)
        steps.append(masker(on))                       # the mutated region is used at once ...
        if rng.random() < 0.7:
            steps.append(masker(other))                # ... and the two regions are used alternately
    return dict(kind='reghist', depth=depth, image=img, steps=steps)


def run_reghist(ctx, case):
    """execute the script; returns None or (index of the first failing masking step, detail, signature)"""
    from AegeanTools import MIMAS
    from AegeanTools.regions import Region
    from astropy.table import Table
    from astropy.io import fits
    depth = case['depth']
    img = case['image']
    H, W = img['H'], img['W']
    w = make_wcs(img)
    yy, xx = np.mgrid[0:H, 0:W]
    with warnings.catch_warnings():
        warnings.simplefilter('ignore')
        psky = w.wcs_pix2world(np.c_[xx.ravel() + 1.0, yy.ravel() + 1.0], 1)     # own centres, FITS convention
    reg = dict(A=Region(maxdepth=depth), B=Region(maxdepth=depth))
    foot = dict(A=np.zeros(0, dtype=np.int64), B=np.zeros(0, dtype=np.int64))
    past = dict(A=[], B=[])           # earlier footprints, to recognise a stale answer
    tmp = ctx.tmpdir()

    def inside_of(F, ra, dec):
        fin, mem = membership(F, depth, ra, dec)
        amb = np.zeros(len(mem), dtype=bool)
        cd = np.maximum(np.cos(np.radians(np.where(fin, dec, 0.0))), 1e-6)
        for dx, dy in ((1e-9, 0), (-1e-9, 0), (0, 1e-9), (0, -1e-9)):
            _, m2 = membership(F, depth, np.asarray(ra) + dx / cd, np.clip(np.asarray(dec) + dy, -90, 90))
            amb |= (m2 != mem) & fin
        return mem, amb

    for k, st in enumerate(case['steps']):
        op, on = st['op'], st['on']
        R = reg[on]
        with warnings.catch_warnings():
            warnings.simplefilter('ignore')
            if op in MUTATORS:
                past[on].append((k, op, foot[on]))
                if op in ('add_circles', 'add_circles_shallow'):
                    c = st['circle']
                    d = st.get('at') or depth
                    R.add_circles(math.radians(c[0]), math.radians(c[1]), math.radians(c[2]), **({'depth': d} if st.get('at') else {}))
                    foot[on] = np.union1d(foot[on], foot_circle(c, d, depth))
                elif op == 'add_poly':
                    R.add_poly([(math.radians(a), math.radians(b)) for a, b in st['poly']])
                    foot[on] = np.union1d(foot[on], foot_poly(st['poly'], depth, depth))
                elif op == 'add_pixels':
                    pix = circle_pixels(st['circle'], st['at'])
                    R.add_pixels(pix, st['at'])
                    foot[on] = np.union1d(foot[on], _expand(pix, st['at'], depth))
                elif op in ('union', 'union_norenorm'):
                    R.union(reg[st['other']], renorm=(op == 'union'))
                    foot[on] = np.union1d(foot[on], foot[st['other']])
                elif op == 'without':
                    R.without(reg[st['other']])
                    foot[on] = np.setdiff1d(foot[on], foot[st['other']])
                elif op == 'intersect':
                    R.intersect(reg[st['other']])
                    foot[on] = np.intersect1d(foot[on], foot[st['other']])
                elif op == 'symmetric_difference':
                    R.symmetric_difference(reg[st['other']])
                    foot[on] = np.setxor1d(foot[on], foot[st['other']])
                elif op == '_renorm':
                    R._renorm()
                elif op == '_demote_all':
                    R._demote_all()
                elif op == 'saveload':
                    fn = os.path.join(tmp, 'reghist_%s.mim' % on)
                    R.save(fn)
                    reg[on] = Region.load(fn)
                continue
            # ---- a masking call, judged against the footprint as it is NOW
            F = foot[on]
            neg = bool(st.get('negate'))
            if op in ('mask_table', 'sky_within'):
                co = np.array(st['coords'], dtype=float).reshape(-1, 2)
                ra, dec = co[:, 0], co[:, 1]
                ins, amb = inside_of(F, ra, dec)
                if op == 'sky_within':
                    got = np.asarray(R.sky_within(ra, dec, degin=True), dtype=bool)
                    res = lambda FF: inside_of(FF, ra, dec)[0]           # noqa: E731
                else:
                    tab = Table(data=[np.arange(len(ra)), ra, dec, np.arange(len(ra)) * 0.5], names=('id', 'ra', 'dec', 'x'))
                    out = MIMAS.mask_table(R, tab, negate=neg)
                    got = np.isin(np.arange(len(ra)), np.array(out['id'], dtype=int))      # kept rows
                    if list(out['id']) != sorted(out['id']) or not np.array_equal(np.array(out['x']), np.array(out['id']) * 0.5):
                        return k, "mask_table reordered rows or changed another column", dict(site='mask_table', what='region-history')
                    res = lambda FF: (inside_of(FF, ra, dec)[0] == neg)     # noqa: E731
                want = res(F)
                ok = ~amb
                labels = [f"row {i} at {st['coords'][i]}" for i in range(len(ra))]
            else:
                ins, amb = inside_of(F, psky[:, 0], psky[:, 1])
                ok = ~amb
                res = lambda FF: (inside_of(FF, psky[:, 0], psky[:, 1])[0] == neg)       # noqa: E731
                want = res(F)                                                            # must be blanked
                rs = np.random.RandomState(st['dseed'] % (2 ** 31))
                P = st.get('planes') or 0
                shape = (P, H, W) if P else (H, W)
                data = rs.standard_normal(shape).astype(np.float32 if st['dtype'] == 'f4' else np.float64)
                if op == 'mask_plane':
                    outd = MIMAS.mask_plane(data.copy(), w, R, neg)
                else:
                    fi, fo, fr = (os.path.join(tmp, 'reghist_' + s) for s in ('in.fits', 'out.fits', 'reg.mim'))
                    hdu = fits.PrimaryHDU(data)
                    for kk, v in make_header(img).items():
                        hdu.header[kk] = v
                    hdu.writeto(fi, overwrite=True)
                    R.save(fr)
                    MIMAS.mask_file(fr, fi, fo, negate=neg)
                    outd = fits.getdata(fo)
                outd = np.asarray(outd).reshape((-1, H * W))
                orig = data.reshape((-1, H * W))
                blank = np.isnan(outd)
                if not all(np.array_equal(blank[p], blank[0]) for p in range(len(blank))):
                    return k, "planes are not masked identically", dict(site=op, what='region-history')
                keep = ~blank
                if not np.array_equal(outd[keep], orig[keep]):
                    return k, "a surviving pixel value changed", dict(site=op, what='region-history')
                got = blank[0]
                labels = [f"pixel row {i // W} col {i % W} (ra={psky[i, 0]:.5f}, dec={psky[i, 1]:.5f})" for i in range(H * W)]
            bad = np.nonzero((got != want) & ok)[0]
            if len(bad):
                stale = None
                for j, mop, Fj in reversed(past[on]):
                    if np.array_equal(res(Fj)[ok], got[ok]):
                        stale = (j, mop)
                        break
                what = {'mask_table': 'kept', 'sky_within': 'reported inside', 'mask_plane': 'blanked', 'mask_file': 'blanked'}[op]
                i = int(bad[0])
                muts = [(j, mop) for j, mop, _ in past[on]]
                detail = (f"step {k} ({op} on region {on}, negate={neg}) after " + ", ".join(f"{j}:{m}" for j, m in muts[-3:])
                          + f": {labels[i]} is {'inside' if ins[i] else 'outside'} the CURRENT footprint of the region "
                          f"({len(F)} pixels at depth {depth}) and must {'' if want[i] else 'not '}be {what}, but was"
                          f"{'' if got[i] else ' not'}; {len(bad)} of {int(ok.sum())} wrong"
                          + (f"; the answer is exactly that for the footprint BEFORE step {stale[0]} ({stale[1]}): "
                             f"the region answers for a stale footprint" if stale else ""))
                return k, detail, dict(site=op, what='region-history', stale_footprint=bool(stale),
                                       after=(stale[1] if stale else (muts[-1][1] if muts else 'none')))
    return None


def eval_reghist(ctx, case, record=True):
    try:
        r = run_reghist(ctx, case)
    except Exception as e:
        r = (len(case['steps']) - 1, f"raised {type(e).__name__}: {str(e)[:200]}",
             dict(site='Region', what='region-history', error=type(e).__name__))
        import traceback
        r = (r[0], r[1] + ' @ ' + traceback.format_exc().strip().splitlines()[-3].strip()[:120], r[2])
    if record:
        ctx.count('region-history')
        for st in case['steps']:
            ctx.count('region-history/' + st['op'])
        ctx.case(dict(kind='reghist', depth=case['depth'], steps=[s['op'] + ':' + s['on'] for s in case['steps']][:40]),
                 nontrivial_key=json.dumps(case, sort_keys=True))
    if r is None:
        return None
    if not record:
        return 'spec'
    k = r[0]
    # minimise: keep the failing step last, delete earlier steps while some masking step still fails at the end
    cur = dict(case, steps=case['steps'][:k + 1])

    def fails(cc):
        try:
            rr = run_reghist(ctx, cc)
        except Exception:
            return False
        return rr is not None and rr[0] == len(cc['steps']) - 1
    if fails(cur):
        i = 0
        while i < len(cur['steps']) - 1:
            t = dict(cur, steps=cur['steps'][:i] + cur['steps'][i + 1:])
            if fails(t):
                cur = t
            else:
                i += 1
        r = run_reghist(ctx, cur) or r
    ctx.fail('spec', cur, r[1], r[2])
    return 'spec'
